import sys, os, json, time, collections
import os; sys.path.insert(0, os.environ.get('RSIM_REPO','/repo')); sys.path.insert(0, '/verif')
import casadi, rockit
from rsim import runner, hist, props
prop = sys.argv[1]; n0=int(sys.argv[2]); n1=int(sys.argv[3])
def fn(seed):
    return hist.run_seed(prop, seed, props.BASE[prop])
t=time.time()
res = runner.run_parallel(fn, list(range(n0,n1)), workers=16, wall=60)
c = collections.Counter()
vio = collections.defaultdict(list)
for seed,out in sorted(res):
    if not out['ok']:
        c['harness']+=1; print(seed, out['err'], out.get('tb','')[-1500:])
        continue
    r = out['res']
    c[r['verdict']]+=1
    if r['verdict']=='violation':
        vio[r['violation']['class']].append(seed)
    if r['verdict']=='discard':
        print('DISCARD', seed, r['detail'][:300])
print(c, time.time()-t)
for k,v in vio.items():
    print(k, len(v), v[:12])
if len(sys.argv)>4:
    seed=int(sys.argv[4])
    for s,out in res:
        if s==seed:
            print(json.dumps(out['res'].get('violation'),indent=1)); 
            for i,st in enumerate(out['res']['steps']): print(i, json.dumps(st))
