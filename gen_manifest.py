#!/usr/bin/env python3
"""Writes MANIFEST.json (kept as a script so that the list of claimed checks stays in one place)."""
import json, os
HERE = os.path.dirname(os.path.abspath(__file__))
CLAIMED = json.load(open(os.path.join(HERE, "claimed.json")))
NA_REASON = {
 "C01": "pure function of (OCP, method, decision vector): no schedule, fault, crash point or history in the statement; needs an independent integrator reference (differential testing / proof), not simulation",
 "C02": "pure function: collocation defect equations vs an independent evaluator; nothing for a simulator to schedule or fault",
 "C03": "numerical-analysis order claim over M in {1,2,4,8}; needs high-accuracy reference flows; no state, fault or schedule",
 "C04": "pure function: constraint instances vs an independent placement model; no history or fault dimension",
 "C05": "pure function: objective vs an independent quadrature/sum model; no history or fault dimension",
 "C06": "pure function of (grid class, N, M, t0, T)",
 "C07": "pure function: sample/value compositionality of one transcription",
 "C08": "pure function on dynamically feasible points: polynomial interpolation identities",
 "C11": "pure function: free-time NLP restricted to T=c vs fixed-time NLP",
 "C14": "pure function: scaled vs unscaled NLP",
 "C15": "pure function: Bernstein sufficiency at every NLP point and time",
 "C16": "pure function: symbolic derivative identity",
 "C17": "pure function: spline evaluation identities (SplineMethod also needs networkx, absent from /venv)",
}
PENDING = json.load(open(os.path.join(HERE, "pending.json"))) if os.path.exists(os.path.join(HERE, "pending.json")) else {}
checks = []
for pid, c in sorted(CLAIMED.items()):
    checks.append({
        "property_id": pid,
        "quick_cmd": "./check %s quick" % pid,
        "thorough_cmd": "./check %s thorough" % pid,
        "evidence_file": "/verif/evidence/%s.json" % pid,
        "replay_cmd_template": "./check --replay {path}",
        "engine": "rsim",
        "level_claimed": {"category": c["category"], "text": c["text"], "design_ref": c["design_ref"]},
        "level_note": c["note"],
        "technique": c["technique"],
    })
na = [{"property_id": k, "reason": v} for k, v in sorted(NA_REASON.items())]
na += [{"property_id": k, "reason": v} for k, v in sorted(PENDING.items()) if k not in CLAIMED]
m = {
 "version": 1,
 "setup_cmd": "./setup.sh",
 "hooks": {
   "guard": "ROCKIT_VERIF",
   "enable": "no hook exists in /repo: every seam (casadi.Opti.solve/solve_limited/solver/callback/to_function, rockit.ocp.open) is a class or module attribute that the simulator replaces inside its own forked run processes; checks import /repo's working tree through PYTHONPATH=/repo",
   "baseline_off_cmd": "cd /repo && /venv/bin/python -m pytest -ra -q -p no:cacheprovider --timeout=900 --continue-on-collection-errors tests",
   "source_commits": [],
   "add_only": True
 },
 "engines": [{"name": "rsim", "path": "/verif/rsim", "serves_properties": sorted(CLAIMED.keys()),
              "kind_free_text": "deterministic simulation with fault injection: seeded scheduler over API histories of 1-3 actors, stubbed solver seam (success / failure / interrupt), in-memory file system with disk faults, executable reference model (Spec) written afresh as oracle, own ddmin minimiser, replay files"}],
 "checks": checks,
 "not_applicable": na,
 "notes": "See DESIGN.md. exit 0 = held on everything explored (KNOWN-FINDING lines possible), 1 = VIOLATION with replay file, 2 = harness error (never a verdict). Genuine defects found by the machinery and repaired in /repo are listed under 'fixed' in known_findings.json with their replay files in findings/."
}
json.dump(m, open(os.path.join(HERE, "MANIFEST.json"), "w"), indent=1)
print("claimed:", sorted(CLAIMED), "not_applicable:", len(na))
