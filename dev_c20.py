import sys, json, time, collections
import os; sys.path.insert(0, os.environ.get('RSIM_REPO','/repo')); sys.path.insert(0,'/verif')
import casadi, rockit
from rsim import runner, c20
n0,n1=int(sys.argv[1]),int(sys.argv[2])
t=time.time()
res = runner.run_parallel(c20.run_seed, list(range(n0,n1)), workers=16, wall=300)
c=collections.Counter(); cases=0; keys=set(); probes=collections.Counter(); faults=collections.Counter()
for seed,out in sorted(res):
    if not out['ok']: print(seed, out['err'], out.get('tb','')[-1500:]); continue
    r=out['res']; c[r['verdict']]+=1; cases+=r['cases']; keys|=set(r['case_keys']); probes.update(r['stats']['probes']); faults.update(r['stats']['faults'])
    if r['verdict']=='violation': print(seed, r['violation']['class'], r['violation']['detail'][:300])
print(c, 'cases',cases,'distinct keys',len(keys), dict(probes), time.time()-t)
print(dict(faults))
