import sys, json, time, collections, importlib
import os; sys.path.insert(0, os.environ.get('RSIM_REPO','/repo')); sys.path.insert(0,'/verif')
import casadi, rockit
from rsim import runner
mod=importlib.import_module('rsim.'+sys.argv[1])
n0,n1=int(sys.argv[2]),int(sys.argv[3])
t=time.time()
res = runner.run_parallel(mod.run_seed, list(range(n0,n1)), workers=16, wall=120)
c=collections.Counter(); probes=collections.Counter(); vio=collections.defaultdict(list)
for seed,out in sorted(res):
    if not out['ok']: print(seed, out['err'], out.get('tb','')[-1800:]); c['harness']+=1; continue
    r=out['res']; c[r['verdict']]+=1; probes.update(r['stats'].get('probes',{}))
    if r['verdict']=='violation': vio[r['violation']['class']].append((seed, r['violation']['detail'][:260]))
    if r['verdict']=='discard': print('DISCARD', seed, r['detail'][:200])
print(c, dict(probes), time.time()-t)
for k,v in vio.items(): print(k, len(v), [s for s,_ in v][:10]); print('   ', v[0][1])
if len(sys.argv)>4:
    for seed,out in res:
        if seed==int(sys.argv[4]):
            for i,s in enumerate(out['res']['steps']): print(i, json.dumps(s)[:220])
