#!/venv/bin/python
"""Detection rate of a seeded change: fraction of seeds whose run ends in a violation.
usage: power.py <PROPERTY> <patch.diff> [nseeds] [tier]   (uses a scratch worktree under /tmp/x, never /repo itself)"""
import collections, json, os, subprocess, sys
prop, patch = sys.argv[1], os.path.abspath(sys.argv[2])
n = int(sys.argv[3]) if len(sys.argv) > 3 else 600
tier = sys.argv[4] if len(sys.argv) > 4 else "quick"
os.makedirs("/tmp/x", exist_ok=True)
wt = "/tmp/x/pw_%d" % os.getpid()
subprocess.run(["git", "-C", "/repo", "worktree", "add", "-q", wt, "HEAD"], check=True)
try:
    r = subprocess.run(["git", "-C", wt, "apply", "--3way", patch], capture_output=True)
    if r.returncode:
        subprocess.run(["git", "-C", wt, "apply", patch], check=True)
    os.environ["RSIM_TIER"] = tier
    sys.path.insert(0, wt)
    sys.path.insert(0, "/verif")
    import casadi, rockit
    assert rockit.__file__.startswith(wt), rockit.__file__
    from rsim import check, runner
    run_seed, _ = check.engine_for(prop)
    seeds = check.derive_seeds(int(os.environ.get("VERIF_SEED", "0")), n)
    res = runner.run_parallel(run_seed, seeds, workers=int(os.environ.get("VERIF_WORKERS", "16")), wall=300)
    c = collections.Counter()
    cls = collections.Counter()
    for s, o in res:
        if not o.get("ok"):
            c["harness"] += 1
            continue
        c[o["res"]["verdict"]] += 1
        if o["res"]["verdict"] == "violation":
            cls[o["res"]["violation"]["class"]] += 1
    print(json.dumps({"prop": prop, "patch": patch, "runs": len(res), "verdicts": dict(c), "rate": round(c["violation"] / max(1, len(res)), 4), "classes": dict(cls)}))
finally:
    subprocess.run(["git", "-C", "/repo", "worktree", "remove", "--force", wt])
