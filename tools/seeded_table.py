#!/usr/bin/env python3
"""Markdown table of the seeded changes under /verif/seeded (from their meta.json)."""
import json, os
root = os.path.join(os.path.dirname(os.path.dirname(os.path.abspath(__file__))), "seeded")
print("| change | property | what it breaks (needs) | caught before strengthening | caught now (detection rate per seed) | what was strengthened |")
print("|---|---|---|---|---|---|")
for d in sorted(os.listdir(root)):
    m = json.load(open(os.path.join(root, d, "meta.json")))
    b = (m.get("breaks") or "").replace("\n", " ").replace("|", "/")
    n = (m.get("needs_to_manifest") or "").replace("\n", " ").replace("|", "/")
    now = m.get("caught_by_quick_check_now")
    rate = m.get("detection_rate")
    print("| %s | %s | %s — *needs:* %s | %s | %s | %s |" % (
        d, m["property"], b[:220], n[:200], "yes" if m.get("caught_by_quick_check_before_strengthening") else "**no**",
        ("yes" if now else ("**no**" if now is False else "?")) + (" (%s by %s)" % (rate, m.get("rate_measured_with")) if rate is not None else ""), (m.get("strengthening") or "—")[:260]))
