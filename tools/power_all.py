#!/venv/bin/python
"""Final detection rates of all seeded changes (generator frozen): runs tools/power.py per change and writes the
result into its meta.json.  usage: power_all.py [pattern]   (scratch worktrees under /tmp/x, never /repo itself)"""
import fnmatch, json, os, subprocess, sys
HERE = os.path.dirname(os.path.abspath(__file__))
ROOT = os.path.join(os.path.dirname(HERE), "seeded")
pat = sys.argv[1] if len(sys.argv) > 1 else "*"
N = {"C20": 36, "C12": 300, "C19": 300}
for d in sorted(os.listdir(ROOT)):
    if not fnmatch.fnmatch(d, pat):
        continue
    mp = os.path.join(ROOT, d, "meta.json")
    m = json.load(open(mp))
    prop = m.get("caught_by_check") or m["property"]
    if isinstance(prop, list):
        prop = prop[0]
    prop = prop.split()[0].strip(",")
    n = N.get(prop, 500)
    r = subprocess.run([os.path.join(HERE, "power.py"), prop, os.path.join(ROOT, d, "patch.diff"), str(n)],
                       capture_output=True, text=True)
    try:
        out = json.loads([l for l in r.stdout.splitlines() if l.startswith("{")][-1])
        if out["rate"] == 0 and prop != "C20":
            # rare manifestation: measure on four times as many seeds (a quick run of the check covers that many)
            r = subprocess.run([os.path.join(HERE, "power.py"), prop, os.path.join(ROOT, d, "patch.diff"), str(4 * n)], capture_output=True, text=True)
            out = json.loads([l for l in r.stdout.splitlines() if l.startswith("{")][-1])
    except Exception:
        print(d, "FAILED", r.stdout[-300:], r.stderr[-300:], flush=True)
        continue
    m["caught_by_quick_check_now"] = out["rate"] > 0
    m["caught_by_check"] = prop
    m["detection_rate"] = out["rate"]
    m["rate_measured_with"] = "tools/power.py %s, %d %s (final, generator frozen)" % (prop, out["runs"], "units" if prop == "C20" else "seeds")
    m["violation_classes"] = out["classes"]
    if out["verdicts"].get("harness"):
        m["harness_errors_in_rate_run"] = out["verdicts"]["harness"]
    json.dump(m, open(mp, "w"), indent=1, ensure_ascii=False)
    print(d, prop, out["runs"], out["verdicts"], out["rate"], flush=True)
