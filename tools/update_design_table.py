#!/usr/bin/env python3
"""Rewrites section 9.5 of DESIGN.md (intro + table of seeded changes) from seeded/*/meta.json."""
import json, os, subprocess, sys
ROOT = os.path.dirname(os.path.dirname(os.path.abspath(__file__)))
metas = {d: json.load(open(os.path.join(ROOT, "seeded", d, "meta.json"))) for d in sorted(os.listdir(os.path.join(ROOT, "seeded")))}


def wave(d):
    parts = d.split("_")
    return int(parts[1][1:]) if len(parts) == 3 and parts[1].startswith("w") else 1


waves = {}
for d, m in metas.items():
    w = waves.setdefault(wave(d), {"n": 0, "missed": 0})
    w["n"] += 1
    if not m.get("caught_by_quick_check_before_strengthening"):
        w["missed"] += 1
n = len(metas)
now = sum(1 for m in metas.values() if m.get("caught_by_quick_check_now"))
low = sorted(d for d, m in metas.items() if (m.get("detection_rate") or 0) < 0.005 and m.get("caught_by_check") != "C20" and m.get("caught_by_quick_check_now"))
missed = sorted(d for d, m in metas.items() if m.get("caught_by_quick_check_now") is False)
other = sorted("%s (by the %s check)" % (d, m["caught_by_check"]) for d, m in metas.items() if m.get("caught_by_check") and m["caught_by_check"] != m["property"])
table = subprocess.run([sys.executable, os.path.join(ROOT, "tools", "seeded_table.py")], capture_output=True, text=True, check=True).stdout
per_wave = "; ".join("wave %d: %d of %d caught as the checks were, %d missed" % (k, v["n"] - v["missed"], v["n"], v["missed"]) for k, v in sorted(waves.items()))
intro = """### 9.5 Seeded changes: which checks catch which

%d changes to rockit were written by independent sub-agents in seven waves (six in the first session, the seventh in the second). Each agent saw only the text of its
property / properties and a scratch worktree of /repo, nothing from /verif; from the second wave on it was also given the
list of mechanisms already used (to avoid). Each change keeps `import rockit` working and the 41 baseline tests passing
(confirmed by me on a scratch worktree with the baseline command; one fifth-wave change failed `test_control_grid` in my
re-run and was dropped), comes with a demonstration that fails with the change and passes without (confirmed with the
change applied to /repo), and needs something specific to manifest. They live in `/verif/seeded/<id>/` (`patch.diff`
applying to the current /repo HEAD, `demo.py`, `meta.json`). Protocol for every one: `git -C /repo apply`, run the
demonstration and the quick check of the property (exit 1 with VIOLATION lines, no harness error), `git -C /repo
checkout -- .` (`tools/try_mutant.sh`). The detection rate per seed in the table was measured at the very end, with the
generator frozen, on a scratch worktree (`tools/power.py` via `tools/power_all.py`: 500 seeds for the history engines,
300 for C12 / C19, 36 units for C20, each unit being a complete fault matrix). The seventh wave (`*_w7_*`) was handled
without touching /repo at all: every check honours `RSIM_REPO=<scratch worktree with the change>`, the demonstration ran
with `PYTHONPATH` pointing at that worktree and at /repo; its rates are those of the single quick run quoted in the table.

As the checks were when a wave arrived: %s. Every miss pointed at something the workload never did or at an exception
the harness swallowed (9.4), two at an oracle that was too coarse (callback counted by name; a case stopped at a refused
declaration). After strengthening, %d of %d are caught by the registered quick checks%s.%s

""" % (n, per_wave, now, n, (" (" + ", ".join(other) + ")") if other else "",
       (" **Not caught:** " + ", ".join(missed) + " (reason and what would catch it: in its meta.json and the table).") if missed else "")
outro = """
Detection rates below about 0.5 %% per seed (%s) still give several hits in a quick run (1 500 - 3 000 seeds) but can be
missed by an unlucky one; the thorough tier runs about ten times as many seeds.
""" % (", ".join(low) if low else "none")
p = os.path.join(ROOT, "DESIGN.md")
s = open(p).read()
i = s.index("### 9.5 Seeded changes")
open(p, "w").write(s[:i] + intro + table + outro)
print("9.5 rewritten: %d changes, caught now %d, waves %s" % (n, now, waves))
