#!/bin/sh
# usage: try_mutant.sh <dir with patch.diff + demo.py> <PROPERTY> [more properties...]
# Applies the change to /repo, runs the demonstration and the quick checks, and undoes the change.
mkdir -p /tmp/x
D="$1"; shift
cd /repo || exit 2
if ! git diff --quiet; then echo "repo not clean"; exit 2; fi
if ! git apply --3way "$D/patch.diff" 2>/tmp/x/apply.err; then
  if ! git apply "$D/patch.diff" 2>>/tmp/x/apply.err; then echo "PATCH DOES NOT APPLY"; cat /tmp/x/apply.err; git checkout -- .; exit 3; fi
fi
git reset -q
echo "== demo with change:"; (cd /tmp/x && PYTHONPATH=/repo timeout 600 /venv/bin/python "$D/demo.py" >/tmp/x/demo.out 2>&1; echo "exit $?"); tail -3 /tmp/x/demo.out
for P in "$@"; do
  echo "== ./check $P quick with change:"
  (cd /verif && ./check "$P" quick > /tmp/x/check_$P.out 2>&1; echo "exit $?")
  grep -E "VIOLATION|KNOWN|HARNESS|quick:" /tmp/x/check_$P.out | cut -c1-260 | head -8
  grep -A1 "VIOLATION" /tmp/x/check_$P.out | grep -v VIOLATION | cut -c1-300 | head -4
done
git checkout -- . ; git clean -fdq rockit 2>/dev/null
echo "== demo without change:"; (cd /tmp/x && PYTHONPATH=/repo timeout 600 /venv/bin/python "$D/demo.py" >/tmp/x/demo.out 2>&1; echo "exit $?")
git status --short | grep -v "^??" | head -3
