"""Expression ASTs over symbol *names* (plain JSON lists).

Only total functions are used so that NaN/Inf cannot make an oracle vacuous.
An AST can be instantiated against any actor's symbol table (-> CasADi MX) or,
when it depends on time only, evaluated numerically by the reference model.
"""
import math

import casadi as ca

# node forms
#   ["c", number]                      constant
#   ["s", name]                        symbol (whole, may be vector/matrix)
#   ["i", name, k]                     k-th nonzero of symbol (column-major)
#   ["t"] ["T"] ["t0"]                 stage time symbols
#   ["+",a,b] ["-",a,b] ["*",a,b] ["neg",a] ["sq",a] ["sin",a] ["cos",a] ["tanh",a]
#   ["sumsq", a]                       sumsqr of a (vector) expression
#   ["vec", a, b, ...]                 vertcat
#   ["mtimes", a, b]
#   ["at_t0",a] ["at_tf",a] ["int",a] ["sum",a] ["sum+",a] ["intc",a]  (placeholders of the stage)
#   ["<=",a,b] [">=",a,b] ["==",a,b] ["box",lo,e,hi]                  (constraints)

UNARY = {
    "neg": lambda a: -a,
    "sq": lambda a: a * a,
    "sin": ca.sin,
    "cos": ca.cos,
    "tanh": ca.tanh,
}
NUM_UNARY = {
    "neg": lambda a: -a,
    "sq": lambda a: a * a,
    "sin": math.sin,
    "cos": math.cos,
    "tanh": math.tanh,
}


class Env:
    """Symbol table of one stage of a live actor."""

    def __init__(self, stage, syms):
        self.stage = stage
        self.syms = syms  # name -> MX
        self.scope = None

    def lookup(self, name):
        if name not in self.syms:
            if name.startswith("?"):  # a symbol that does not belong to this OCP (specification fault)
                self.syms[name] = ca.MX.sym("foreign" + name[1:])
                return self.syms[name]
            raise KeyError(name)
        return self.syms[name]


def inst(ast, env):
    """AST -> CasADi expression on env.stage. Raises KeyError for unknown symbols."""
    k = ast[0]
    if k == "c":
        return ast[1]
    if k == "dm":
        return ca.reshape(ca.DM(ast[3]), ast[1], ast[2])
    if k == "s":
        return env.lookup(ast[1])
    if k == "i":
        s = env.lookup(ast[1])
        return s.nz[ast[2]] if s.numel() > 1 else s
    if k == "pwg":  # piecewise constant on a given grid: vals[i] on [knots[i], knots[i+1]), vals[N] from knots[N] on
        vals, knots = ast[1], ast[2]
        t = env.stage.t
        eps = 1e-9 * max(1.0, abs(knots[-1] - knots[0]))
        idx = ca.low(ca.DM(knots), t + eps)
        inner = ca.MX(ca.DM(vals[:-1]))[idx]
        return ca.if_else(t >= knots[-1] - eps, vals[-1], inner)
    if k == "pw":  # piecewise constant in time: value of the interval [t0 + i dt, t0 + (i+1) dt) that contains t
        vals, t0, dt = ast[1], ast[2], ast[3]
        return ca.MX(ca.DM(vals))[ca.floor((env.stage.t - t0) / dt)]
    if k == "next":
        return env.stage.next(inst(ast[1], env))
    if k == "prev":
        return env.stage.prev(inst(ast[1], env))
    if k == "in":  # expression of another stage of the same OCP
        return inst(ast[2], env.scope.node(ast[1]).env)
    if k == "tf":
        return env.stage.tf
    if k == "mx":
        return ca.MX(ast[1])
    if k == "DT":
        return env.stage.DT
    if k == "DTc":
        return env.stage.DT_control
    if k == "t":
        return env.stage.t
    if k == "T":
        return env.stage.T
    if k == "t0":
        return env.stage.t0
    if k in UNARY:
        return UNARY[k](inst(ast[1], env))
    if k == "+":
        return inst(ast[1], env) + inst(ast[2], env)
    if k == "-":
        return inst(ast[1], env) - inst(ast[2], env)
    if k == "*":
        return inst(ast[1], env) * inst(ast[2], env)
    if k == "sumsq":
        return ca.sumsqr(inst(ast[1], env))
    if k == "vec":
        return ca.vertcat(*[inst(a, env) for a in ast[1:]])
    if k == "mtimes":
        return ca.mtimes(inst(ast[1], env), inst(ast[2], env))
    if k == "at_t0":
        return env.stage.at_t0(inst(ast[1], env))
    if k == "at_tf":
        return env.stage.at_tf(inst(ast[1], env))
    if k == "int":
        return env.stage.integral(inst(ast[1], env))
    if k == "intc":
        return env.stage.integral(inst(ast[1], env), grid="control")
    if k == "sum":
        return env.stage.sum(inst(ast[1], env))
    if k == "sum+":
        return env.stage.sum(inst(ast[1], env), include_last=True)
    if k == "<=":
        return inst(ast[1], env) <= inst(ast[2], env)
    if k == ">=":
        return inst(ast[1], env) >= inst(ast[2], env)
    if k == "==":
        return inst(ast[1], env) == inst(ast[2], env)
    if k == "box":
        return inst(ast[1], env) <= (inst(ast[2], env) <= inst(ast[3], env))
    raise ValueError("bad ast node %r" % (k,))


def evalnum(ast, t=None, vals=None):
    """Numeric evaluation of a scalar AST over time (and named scalar constants)."""
    k = ast[0]
    if k == "c":
        return float(ast[1])
    if k == "t":
        return float(t)
    if k == "s":
        return float(vals[ast[1]])
    if k in NUM_UNARY:
        return NUM_UNARY[k](evalnum(ast[1], t, vals))
    if k == "+":
        return evalnum(ast[1], t, vals) + evalnum(ast[2], t, vals)
    if k == "-":
        return evalnum(ast[1], t, vals) - evalnum(ast[2], t, vals)
    if k == "*":
        return evalnum(ast[1], t, vals) * evalnum(ast[2], t, vals)
    raise ValueError("evalnum: unsupported node %r" % (k,))


def symbols_of(ast, out=None):
    """Names of symbols an AST mentions."""
    if out is None:
        out = set()
    if not isinstance(ast, list):
        return out
    if ast and ast[0] in ("s", "i"):
        out.add(ast[1])
        return out
    if ast and ast[0] == "in":
        out.add("@" + ast[1])
        return out
    for a in ast[1:]:
        symbols_of(a, out)
    return out


def mentions(ast, kinds):
    if not isinstance(ast, list) or not ast:
        return False
    if ast[0] in kinds:
        return True
    return any(mentions(a, kinds) for a in ast[1:])


def subst_consts(ast, consts):
    """Replace symbols (whole or indexed) by numeric constants. consts: name -> flat list (column-major)
    with shape info {name: (rows, cols, flatvalues)}. Whole non-scalar symbols become ["dm", rows, cols, flat]."""
    if not isinstance(ast, list) or not ast:
        return ast
    k = ast[0]
    if k == "s" and ast[1] in consts:
        r, c, flat = consts[ast[1]]
        if r * c == 1:
            return ["c", flat[0]]
        return ["dm", r, c, list(flat)]
    if k == "i" and ast[1] in consts:
        r, c, flat = consts[ast[1]]
        return ["c", flat[ast[2]] if r * c > 1 else flat[0]]
    return [k] + [subst_consts(a, consts) for a in ast[1:]]


def subst_exprs(ast, table):
    """replace whole scalar symbols by expressions (name -> AST)"""
    if not isinstance(ast, list) or not ast:
        return ast
    if ast[0] in ("s", "i") and ast[1] in table:
        return table[ast[1]]
    return [ast[0]] + [subst_exprs(a, table) for a in ast[1:]]


def size(ast):
    if not isinstance(ast, list):
        return 1
    return 1 + sum(size(a) for a in ast[1:])
