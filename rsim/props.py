"""Per-property configuration of the history engine (swarm weights, extra oracles)."""

# localized and free time grids are part of every tier (their helper variables carry guesses of their own)
COMMON = {"localize": True, "freegrid": True}

BASE = {
    "C13": {
        "max_steps": 14,
        "weights": {},
        "p_real": 0.25,
    },
    "C09": {
        "max_steps": 12,
        "np_min": 1,
        "np_max": 4,
        "p_base_guess": 0.4,
        "p_param_guess": 0.5,
        "p_interior": 0.35,
        "weights": {"set_value": 8, "set_initial": 1.0, "subject_to": 0.5, "clear_constraints": 0.2, "add_objective": 0.3, "solver": 0.2,
                    "set_T": 0.2, "set_t0": 0.1, "late_sym": 0.1, "reject": 0.2, "save": 1, "load": 1, "method": 2, "catsave": 1},
        "p_real": 0.15,
    },
    "C10": {
        "max_steps": 12,
        "weights": {"set_initial": 9, "set_value": 0.5, "subject_to": 0.3, "clear_constraints": 0.1, "add_objective": 0.3, "solver": 0.2,
                    "set_T": 0.3, "set_t0": 0.2, "late_sym": 0.1, "reject": 0.2, "save": 0.7, "load": 0.7, "method": 2},
        "p_base_guess": 0.5,
        "p_zero_guess": 0.15,
        "p_real": 0.1,
    },
    "C18": {
        "max_steps": 14,
        # (the registered callback is a picklable module-level object, as a user who saves OCPs would write it)
        "weights": {"save": 5, "load": 5, "callback": 0.6, "set_value": 5, "catsave": 2},
        "np_min": 2,
        "p_real": 0.15,
    },
}


THOROUGH = {"max_steps": 30, "Nmax": 6, "Mmax": 3, "degmax": 4, "nx_max": 4, "nu_max": 3, "np_max": 4, "nv_max": 3, "p_two_actors": 0.3,
            "localize": True, "freegrid": True}


def base_cfg(prop):
    """per-property base configuration; the thorough tier explores deeper bounds"""
    import os

    cfg = dict(COMMON)
    cfg.update(BASE[prop])
    if os.environ.get("RSIM_TIER") == "thorough":
        for k, v in THOROUGH.items():
            if k in ("np_max",) and prop == "C09":
                v = 5
            cfg[k] = v
    return cfg


def configure_world(w, prop):
    from . import oracles

    w.seam.keep_fun = True
    w.extra_oracles.append(oracles.grid_absolute)
    if prop == "C09":
        w.extra_oracles.append(oracles.c09_constants)
    if prop == "C10":
        w.seam.keep_fun = True
        w.extra_oracles.append(oracles.c10_absolute)
        w.on_edit_raised.append(oracles.c10_edit_raised)
        w.on_fresh_failure.append(oracles.c10_fresh_failure)
    if prop == "C18":
        w.on_edit_raised.append(oracles.c18_edit_raised)
