"""The seams the simulator owns: solver hand-off, file system, stdout.

Nothing in /repo is hooked: `casadi.Opti.solve/solve_limited/solver/to_function` are class
attributes resolved at call time, and `rockit.ocp.open` is a module global that shadows the
builtin.  Everything is installed inside the forked run process only.
"""
import errno
import hashlib
import io
import json
import os
import random

import casadi as ca
import numpy as np


# ----------------------------------------------------------------------------------------------
# hand-off record
# ----------------------------------------------------------------------------------------------
def _arr(dm):
    a = np.array(ca.DM(dm), dtype=float).flatten(order="F")
    return a


def probe_points(nx, probe_seed, n=3):
    r = random.Random(probe_seed * 1000003 + nx)
    return [np.array([round(r.uniform(-1.0, 1.0), 6) for _ in range(nx)]) for _ in range(n)]


def capture(opti, probe_seed, with_fun=False):
    """Everything the solver is handed: sizes, f/g/lbg/ubg at probe points and x0, x0, p, solver."""
    x, p = opti.x, opti.p
    nx, ng, npar = opti.nx, opti.ng, opti.np
    F = ca.Function("nlp", [x, p], [opti.f, opti.g, opti.lbg, opti.ubg])
    ini = opti.initial()
    x0 = _arr(opti.debug.value(x, ini)) if nx else np.zeros(0)
    pv = _arr(opti.debug.value(p, ini)) if npar else np.zeros(0)
    rec = {"nx": nx, "ng": ng, "np": npar, "x0": x0, "p": pv, "f": [], "g": [], "lbg": None, "ubg": None}
    # the bounds depend on the parameters only: evaluated on their own, so that a point at which a built-in integrator
    # fails (CasADi then returns NaN for every output of that call) cannot blank them
    try:
        lbg, ubg = ca.Function("bounds", [p], [opti.lbg, opti.ubg])(pv)
        rec["lbg"], rec["ubg"] = _arr(lbg), _arr(ubg)
    except RuntimeError:
        pass
    for xi in [x0] + probe_points(nx, probe_seed):
        try:
            f, g, lbg, ubg = F(xi, pv)
        except RuntimeError:
            # a built-in integrator (cvodes / idas / collocation) may fail to integrate from an arbitrary point:
            # the NLP exists, it just cannot be evaluated there; such a point is not judged (NaN-aware comparison)
            rec["f"].append(float("nan"))
            rec["g"].append(np.full(ng, np.nan))
            if rec["lbg"] is None:
                rec["lbg"], rec["ubg"] = np.full(ng, np.nan), np.full(ng, np.nan)
            continue
        rec["f"].append(float(f))
        rec["g"].append(_arr(g))
        if rec["lbg"] is None or np.all(np.isnan(rec["lbg"])):
            rec["lbg"], rec["ubg"] = _arr(lbg), _arr(ubg)
    try:  # decision-variable entries ever created on this Opti (Opti drops unused ones from the NLP)
        adv = opti.advanced
        rec["nx_created"] = int(sum(sv.numel() for sv in adv.symvar() if adv.get_meta(sv).type == ca.OPTI_VAR))
    except Exception:
        rec["nx_created"] = None
    rec["solver"] = getattr(opti, "_rsim_solver", None)
    rec["has_callback"] = bool(getattr(opti, "_rsim_callback", False))
    if with_fun:
        rec["_F"] = F
        rec["_opti"] = opti
    return rec


def _close(a, b, rtol=1e-9, atol=1e-12):
    a = np.asarray(a, dtype=float)
    b = np.asarray(b, dtype=float)
    if a.shape != b.shape:
        return False
    both_nan = np.isnan(a) & np.isnan(b)
    same_inf = np.isinf(a) & np.isinf(b) & (np.sign(a) == np.sign(b))
    with np.errstate(invalid="ignore"):
        ok = np.abs(a - b) <= atol + rtol * np.maximum(np.abs(a), np.abs(b))
    return bool(np.all(ok | both_nan | same_inf))


COND_LIMIT = 1e6


def well_conditioned(r1, r2):
    """indices of evaluation points (0 = x0, 1.. = probes) at which both records stay moderate.  Generated
    dynamics can blow up at a random probe point (values ~1e30); there rounding differences between two
    expression graphs of the same function are amplified beyond any tolerance, so such points are not judged."""
    ok = []
    for i in range(min(len(r1["f"]), len(r2["f"]))):
        vals = [np.abs(np.asarray(r1["g"][i], dtype=float)), np.abs(np.asarray(r2["g"][i], dtype=float)),
                np.abs(np.asarray([r1["f"][i], r2["f"][i]], dtype=float))]
        if any(np.all(np.isnan(v)) and v.size for v in vals):
            continue  # could not be evaluated at this point
        m = max([float(np.nanmax(v)) if v.size else 0.0 for v in vals])
        if np.isfinite(m) and m <= COND_LIMIT:
            ok.append(i)
    return ok


def insensitive_points(rec, pts, probe_seed, rtol, atol):
    """of the evaluation points `pts`, those at which the recorded NLP functions do not move by more than the tolerance
    when the point and the parameters are perturbed in the 13th digit.  Values that look moderate can sit on top of a
    blown-up intermediate (sin of a state that has grown to 1e10 in an unstable single-shooting recursion): there two
    expression graphs of the same function legitimately differ in the 7th digit, which only such a perturbation shows."""
    F = rec.get("_F")
    if F is None:
        return pts
    xs = [np.asarray(rec["x0"], dtype=float)] + probe_points(rec["nx"], probe_seed)
    keep = []
    for i in pts:
        try:
            f, g, _, _ = F(xs[i] * (1 + 2e-13), np.asarray(rec["p"], dtype=float) * (1 + 2e-13))
        except RuntimeError:
            continue
        if _close([float(f)], [rec["f"][i]], rtol=rtol / 10, atol=atol / 10) and _close(_arr(g), rec["g"][i], rtol=rtol / 10, atol=atol / 10):
            keep.append(i)
    return keep


def compare(r1, r2, fields=("size", "f", "g", "bounds", "x0", "p", "solver")):
    """-> None if equal, else (class, detail) for the first differing field."""
    if "size" in fields:
        for k in ("nx", "ng", "np"):
            if r1[k] != r2[k]:
                return ("size", "%s: %d vs %d" % (k, r1[k], r2[k]))
    if "p" in fields and not _close(r1["p"], r2["p"]):
        return ("p", "p: %s vs %s" % (np.round(r1["p"], 6).tolist(), np.round(r2["p"], 6).tolist()))
    if ("f" in fields or "g" in fields) and r1["nx"] == r2["nx"] and r1["ng"] == r2["ng"]:
        pts = well_conditioned(r1, r2)
        if "f" in fields and not _close([r1["f"][i] for i in pts], [r2["f"][i] for i in pts]):
            return ("f", "f: %s vs %s" % (r1["f"], r2["f"]))
        if "g" in fields:
            for i in pts:
                a, b = r1["g"][i], r2["g"][i]
                if not _close(a, b):
                    return ("g", "g at probe %d differs: first idx %s" % (i, _first_diff(a, b)))
    if "bounds" in fields:
        if not _close(r1["lbg"], r2["lbg"]):
            return ("bounds", "lbg differs at %s" % _first_diff(r1["lbg"], r2["lbg"]))
        if not _close(r1["ubg"], r2["ubg"]):
            return ("bounds", "ubg differs at %s" % _first_diff(r1["ubg"], r2["ubg"]))
    if "x0" in fields and not _close(r1["x0"], r2["x0"]):
        return ("x0", "x0: %s vs %s" % (np.round(r1["x0"], 6).tolist(), np.round(r2["x0"], 6).tolist()))
    if "solver" in fields:
        if json.dumps(r1["solver"], sort_keys=True) != json.dumps(r2["solver"], sort_keys=True):
            return ("solver", "solver: %s vs %s" % (r1["solver"], r2["solver"]))
        if r1.get("has_callback") != r2.get("has_callback"):
            return ("solver", "callback registered: %s vs %s" % (r1.get("has_callback"), r2.get("has_callback")))
    return None


def _first_diff(a, b):
    a = np.asarray(a)
    b = np.asarray(b)
    if a.shape != b.shape:
        return "shape %s vs %s" % (a.shape, b.shape)
    for i in range(a.size):
        if not _close(a[i], b[i]):
            return "%d (%r vs %r)" % (i, float(a[i]), float(b[i]))
    return "?"


def digest(rec):
    h = hashlib.sha256()
    for k in ("nx", "ng", "np"):
        h.update(str(rec[k]).encode())
    for k in ("x0", "p", "lbg", "ubg"):
        h.update(np.round(np.nan_to_num(np.asarray(rec[k], dtype=float), nan=1e300, posinf=1e301, neginf=-1e301), 9).tobytes())
    h.update(np.round(np.nan_to_num(np.asarray(rec["f"], dtype=float), nan=1e300, posinf=1e301, neginf=-1e301), 9).tobytes())
    for g in rec["g"]:
        h.update(np.round(np.nan_to_num(g, nan=1e300, posinf=1e301, neginf=-1e301), 9).tobytes())
    h.update(json.dumps(rec["solver"], sort_keys=True).encode())
    return h.hexdigest()[:16]


# ----------------------------------------------------------------------------------------------
# solver seam
# ----------------------------------------------------------------------------------------------
class SolverFailure(RuntimeError):
    pass


class StubSol:
    """What a solve returns in stub mode: evaluates expressions at a seeded decision vector."""

    def __init__(self, opti, xstar):
        self.opti = opti
        self.xstar = np.asarray(xstar, dtype=float)
        ini = opti.initial()
        self.p = _arr(opti.debug.value(opti.p, ini)) if opti.np else np.zeros(0)
        self.lam = np.zeros(opti.ng)

    def value(self, expr, *args, **kwargs):
        e = ca.MX(expr) if not isinstance(expr, ca.MX) else expr
        F = ca.Function("v", [self.opti.x, self.opti.p, self.opti.lam_g], [e])
        r = F(self.xstar, self.p, self.lam)
        if r.is_scalar():
            return float(r)
        a = np.array(r)
        if r.is_vector():
            return a.flatten()
        return a

    def stats(self):
        return {"return_status": "rsim_stub", "success": True, "iter_count": 0}

    def value_variables(self):
        return []

    def value_parameters(self):
        return []


class SolverSeam:
    """Owns casadi.Opti.solve / solve_limited / solver / callback / to_function."""

    def __init__(self, probe_seed):
        self.probe_seed = probe_seed
        self.mode = "stub"  # stub | real
        self.next_fault = None  # None | fail_before | fail_after | interrupt
        self.records = []  # hand-off records, in order
        self.reached = 0
        self.to_function_reached = 0
        self.keep_fun = False
        self.on_iteration = None  # hook run "between iterations" of a stubbed solve
        self.stub_point = "x0"  # x0 | seeded
        self._orig = {}
        self.interrupt_after = None  # armed: the k-th call into Opti while transcribing raises KeyboardInterrupt
        self.interrupts_fired = 0

    def install(self):
        O = ca.Opti
        self._orig = {k: getattr(O, k) for k in ("solve", "solve_limited", "solver", "callback", "to_function")}
        seam = self

        def solver(self_, name, *args):
            opts = args[0] if args else {}
            try:
                self_._rsim_solver = [name, json.loads(json.dumps(opts if opts is not None else {}, sort_keys=True, default=str))]
            except Exception:
                pass
            return seam._orig["solver"](self_, name, *args)

        def callback(self_, *args):
            try:
                self_._rsim_callback = True
                self_._rsim_cbfun = args[0] if args else None
            except Exception:
                pass
            return seam._orig["callback"](self_, *args)

        def solve(self_):
            return seam._handoff(self_, "solve")

        def solve_limited(self_):
            return seam._handoff(self_, "solve_limited")

        def to_function(self_, *args):
            seam.to_function_reached += 1
            return seam._orig["to_function"](self_, *args)

        # calls rockit makes into Opti while it transcribes: the places where Ctrl-C can arrive during a long transcription
        for nm in ("variable", "parameter", "subject_to", "minimize", "set_initial", "set_value"):
            self._orig[nm] = getattr(O, nm)

            def counting(self_, *a, _nm=nm, **kw):
                if seam.interrupt_after is not None:
                    seam.interrupt_after -= 1
                    if seam.interrupt_after < 0:
                        seam.interrupt_after = None
                        seam.interrupts_fired += 1
                        raise KeyboardInterrupt()
                return seam._orig[_nm](self_, *a, **kw)

            setattr(O, nm, counting)
        O.solver = solver
        O.callback = callback
        O.solve = solve
        O.solve_limited = solve_limited
        O.to_function = to_function

    def uninstall(self):
        for k, v in self._orig.items():
            setattr(ca.Opti, k, v)

    def _handoff(self, opti, how):
        # Opti.solve first bakes the NLP (a Function of x and p); if that fails (free symbols, ...) the
        # real solver is never invoked, so an exception here is not a hand-off
        rec = capture(opti, self.probe_seed, with_fun=self.keep_fun)
        self.reached += 1
        rec["how"] = how
        self.records.append(rec)
        fault, self.next_fault = self.next_fault, None
        if fault == "fail_before":
            raise SolverFailure("Error in Opti::solve [OptiNode]: Solver failed (injected before the solver ran). return_status is 'Maximum_Iterations_Exceeded'")
        if fault == "interrupt":
            if self.on_iteration:
                self.on_iteration(opti, 0)
            raise KeyboardInterrupt()
        if self.mode == "real":
            sol = self._orig[how](opti)
            if fault == "fail_after":
                raise SolverFailure("Error in Opti::solve [OptiNode]: Solver failed (injected after the solver ran). return_status is 'Maximum_Iterations_Exceeded'")
            return sol
        # stub
        if self.on_iteration:
            self.on_iteration(opti, 0)
        if fault == "fail_after":
            raise SolverFailure("Error in Opti::solve [OptiNode]: Solver failed (injected). return_status is 'Maximum_Iterations_Exceeded'")
        if self.stub_point == "x0":
            xs = rec["x0"]
        else:
            xs = probe_points(rec["nx"], self.probe_seed + 17, 1)[0]
        return StubSol(opti, xs)


# ----------------------------------------------------------------------------------------------
# file-system seam
# ----------------------------------------------------------------------------------------------
class _FakeFile(io.BytesIO):
    """Write-through file: every write is durable at once (rockit never closes what it opens)."""

    def __init__(self, fs, path, mode, budget=None):
        self.fs, self.path, self.mode_, self.budget = fs, path, mode, budget
        if "r" in mode:
            io.BytesIO.__init__(self, fs.files[path])
        else:
            io.BytesIO.__init__(self)
            fs.files[path] = b""
            fs.clock += 1.0  # simulated time: every write moves the file's modification time
            fs.mtimes[path] = fs.clock

    def write(self, b):
        b = bytes(b)
        if self.budget is not None:
            room = self.budget - len(self.fs.files[self.path])
            if len(b) > room:
                self.fs.files[self.path] += b[: max(room, 0)]
                self.fs.fired["enospc"] += 1
                raise OSError(errno.ENOSPC, "No space left on device (injected)")
        self.fs.files[self.path] += b
        return len(b)


class FakeFS:
    def __init__(self):
        self.files = {}
        self.next_fault = None  # None | ("enospc", k) | ("eacces",) | ("eio",)
        self.fired = {"enospc": 0, "eacces": 0, "eio": 0, "torn": 0, "lost": 0, "enoent": 0}
        self.opened = 0
        self.mtimes = {}
        self.clock = 1.0e9

    def open(self, path, mode="r", *a, **kw):
        self.opened += 1
        path = str(path)
        fault, self.next_fault = self.next_fault, None
        if fault and fault[0] == "eacces":
            self.fired["eacces"] += 1
            raise PermissionError(errno.EACCES, "Permission denied (injected)", path)
        if fault and fault[0] == "eio":
            self.fired["eio"] += 1
            raise OSError(errno.EIO, "Input/output error (injected)", path)
        if "r" in mode:
            if path not in self.files:
                self.fired["enoent"] += 1
                raise FileNotFoundError(errno.ENOENT, "No such file or directory", path)
            return _FakeFile(self, path, mode)
        budget = fault[1] if fault and fault[0] == "enospc" else None
        return _FakeFile(self, path, mode, budget)

    def tear(self, path, keep):
        if path in self.files:
            self.files[path] = self.files[path][:keep]
            self.fired["torn"] += 1

    def lose(self, path):
        if path in self.files:
            del self.files[path]
            self.fired["lost"] += 1

    def install(self):
        """rockit.ocp.open is the write/read seam; os.path / os.stat answer for the fake files as well, so that code
        which asks whether a file exists (or how large / how old it is) sees the simulated disk"""
        import rockit.ocp as rocp

        rocp.open = self.open
        fs = self
        self._orig_os = {"exists": os.path.exists, "isfile": os.path.isfile, "getsize": os.path.getsize, "getmtime": os.path.getmtime, "stat": os.stat}
        self.clock = 1.0e9

        def known(p):
            return isinstance(p, str) and (p in fs.files or os.path.basename(p) in fs.files)

        def key(p):
            return p if p in fs.files else os.path.basename(p)

        def exists(p):
            return True if known(p) else fs._orig_os["exists"](p)

        def isfile(p):
            return True if known(p) else fs._orig_os["isfile"](p)

        def getsize(p):
            return len(fs.files[key(p)]) if known(p) else fs._orig_os["getsize"](p)

        def getmtime(p):
            return fs.mtimes.get(key(p), fs.clock) if known(p) else fs._orig_os["getmtime"](p)

        def stat(p, *a, **kw):
            if known(p):
                t = fs.mtimes.get(key(p), fs.clock)
                return os.stat_result((0o100644, 0, 0, 1, 0, 0, len(fs.files[key(p)]), t, t, t))
            return fs._orig_os["stat"](p, *a, **kw)

        os.path.exists, os.path.isfile, os.path.getsize, os.path.getmtime, os.stat = exists, isfile, getsize, getmtime, stat

    def uninstall(self):
        import rockit.ocp as rocp

        if "open" in rocp.__dict__:
            del rocp.__dict__["open"]
        if getattr(self, "_orig_os", None):
            os.path.exists, os.path.isfile = self._orig_os["exists"], self._orig_os["isfile"]
            os.path.getsize, os.path.getmtime, os.stat = self._orig_os["getsize"], self._orig_os["getmtime"], self._orig_os["stat"]


# ----------------------------------------------------------------------------------------------
# stdout
# ----------------------------------------------------------------------------------------------
class Silence:
    """Redirect fd 1 and 2 to /dev/null while rockit / CasADi / ipopt print."""

    def __enter__(self):
        import sys

        self.off = bool(os.environ.get("RSIM_NOSILENCE"))  # (debugging aid: keep fd 1 / 2 open)
        if self.off:
            return self
        sys.stdout.flush()
        sys.stderr.flush()
        self.saved = (os.dup(1), os.dup(2))
        dn = os.open(os.devnull, os.O_WRONLY)
        os.dup2(dn, 1)
        os.dup2(dn, 2)
        os.close(dn)
        return self

    def __exit__(self, *a):
        import sys

        if self.off:
            return False
        sys.stdout.flush()
        sys.stderr.flush()
        os.dup2(self.saved[0], 1)
        os.dup2(self.saved[1], 2)
        os.close(self.saved[0])
        os.close(self.saved[1])
        return False
