"""Reference model (`Spec`) and live actors.

`Spec` is the executable reference model: a value-semantics record of what the user has
specified so far.  Every op updates it by plain assignment.  `program(spec)` writes the
specification afresh as a canonical op list (declarations once, values before the first
transcription); `Actor.apply` executes one op against the real rockit objects.
"""
import copy
import json

import casadi as ca
import numpy as np

from . import expr as E


CB_LOG = []   # invocations of the user callback in this process: (name the callback was created with, iteration)
CB_HOOKS = {}  # "*" -> dispatcher of the world: what the callback does (re-entry, injected failure) depends on the actor
               # that is being solved, not on the name the callback object was created with (it survives save/load)


def user_callback(name):
    """the user's callback as a picklable object (a module-level class instance), so that an OCP with a registered
    callback can be saved"""
    return UserCallback(name)


class UserCallback:
    def __init__(self, name):
        self.name = name

    def __call__(self, it, sol):
        CB_LOG.append((self.name, it))
        hook = CB_HOOKS.get("*")
        if hook is not None:
            hook(it, sol)


def jcopy(o):
    return json.loads(json.dumps(o))


# ----------------------------------------------------------------------------------------------
# Spec
# ----------------------------------------------------------------------------------------------
class Spec:
    def __init__(self):
        self.T = ["num", 1]
        self.t0 = ["num", 0]
        self.T_scale = 1
        self.syms = []  # ordered sym dicts
        self.der = {}  # state -> [ast, scale]
        self.nxt = {}  # state -> ast
        self.alg = []  # [ast, scale]
        self.cons = []  # constraint dicts
        self.obj = []  # asts
        self.method = None
        self.solver = None  # [name, opts]
        self.values = {}  # param -> value
        self.initial = []  # [target, guess], last call for a symbol moves to the end
        self.cb = False
        self.stages = []  # [name, child Spec] in creation order (C12)

    # -- helpers
    def sym(self, name):
        for s in self.syms:
            if s["name"] == name:
                return s
        return None

    def names(self, kind=None, **flt):
        out = []
        for s in self.syms:
            if kind is not None and s["kind"] != kind:
                continue
            if any(s.get(k) != v for k, v in flt.items()):
                continue
            out.append(s["name"])
        return out

    def clone(self):
        return copy.deepcopy(self)

    def to_json(self):
        d = dict(self.__dict__)
        d["stages"] = [[n, s.to_json()] for n, s in self.stages]
        return jcopy(d)

    def child(self, name):
        for n, s in self.stages:
            if n == name:
                return s
        return None

    # -- transitions: apply an op that the real system accepted
    def apply(self, op):
        k = op["op"]
        if k == "new_ocp":
            self.T = jcopy(op.get("T", ["num", 1]))
            self.t0 = jcopy(op.get("t0", ["num", 0]))
            self.T_scale = op.get("scale", 1)
        elif k == "sym":
            d = {kk: vv for kk, vv in op.items() if kk not in ("op", "stage", "a", "fault", "kind_")}
            self.syms.append(jcopy(d))
        elif k == "set_der":
            self.der[op["state"]] = [jcopy(op["expr"]), op.get("scale", 1)]
        elif k == "set_next":
            self.nxt[op["state"]] = jcopy(op["expr"])
        elif k == "add_alg":
            self.alg.append([jcopy(op["expr"]), op.get("scale", 1)])
        elif k == "subject_to":
            d = {kk: vv for kk, vv in op.items() if kk not in ("op", "stage", "a", "fault", "expect")}
            self.cons.append(jcopy(d))
        elif k == "clear_constraints":
            self.cons = []
        elif k == "add_objective":
            self.obj.append(jcopy(op["expr"]))
        elif k == "set_T":
            self.T = jcopy(op["T"])
        elif k == "set_t0":
            self.t0 = jcopy(op["t0"])
        elif k == "method":
            self.method = jcopy(op["m"])
        elif k == "solver":
            self.solver = [op["name"], jcopy(op.get("opts", {}))]
        elif k == "set_value":
            self.values[op["p"]] = jcopy(op["v"])
        elif k == "set_value_cat":
            for p, v in zip(op["ps"], op["v"]):
                self.values[p] = v
        elif k == "set_initial":
            self.initial = [e for e in self.initial if e[0] != op["x"]]
            self.initial.append([op["x"], jcopy(op["g"])])
        elif k == "callback":
            self.cb = True
        # queries, solves, save/load, check: no change of the specification


def program(spec, consts=None, exprs=None):
    """The specification written afresh: canonical op list.

    consts: optional {param name: value} -- those parameters are *not* declared; every use is
    replaced by the number (C09 "values written in as constants")."""
    consts = consts or {}
    cshape = {}
    for s in spec.syms:
        if s["name"] in consts:
            cshape[s["name"]] = (s.get("rows", 1), s.get("cols", 1), flat_cm(consts[s["name"]], s.get("rows", 1), s.get("cols", 1)))

    exprs = exprs or {}  # parameter name -> expression written in its place (C09, node-only parameters)

    def sub(ast):
        if exprs:
            ast = E.subst_exprs(ast, exprs)
        return E.subst_consts(ast, cshape) if cshape else ast

    def tsub(ts):
        if ts[0] == "par" and ts[1] in consts:
            return ["num", cshape[ts[1]][2][0]]
        return ts

    ops = []
    T, t0 = tsub(spec.T), tsub(spec.t0)
    new = {"op": "new_ocp", "scale": spec.T_scale}
    if T[0] != "par":
        new["T"] = T
    if t0[0] != "par":
        new["t0"] = t0
    ops.append(new)
    for s in spec.syms:
        if s["name"] in consts or s["name"] in exprs:
            continue
        ops.append(dict(op="sym", **s))
    if T[0] == "par":
        ops.append({"op": "set_T", "T": T})
    if t0[0] == "par":
        ops.append({"op": "set_t0", "t0": t0})
    # children: every stage -- also one that was created from a template -- written as a direct stage
    for name, ch in spec.stages:
        cops = program(ch)
        head = cops[0]
        d = {"op": "stage", "name": name}
        for k in ("T", "t0"):
            if k in head:
                d[k] = head[k]
        ops.append(d)
        for op in cops[1:]:
            op["stage"] = name
            ops.append(op)
    for st, (ast, sc) in spec.der.items():
        ops.append({"op": "set_der", "state": st, "expr": sub(ast), "scale": sc})
    for st, ast in spec.nxt.items():
        ops.append({"op": "set_next", "state": st, "expr": sub(ast)})
    for ast, sc in spec.alg:
        ops.append({"op": "add_alg", "expr": sub(ast), "scale": sc})
    for c in spec.cons:
        d = dict(c)
        d["expr"] = sub(c["expr"])
        ops.append(dict(op="subject_to", **d))
    for ast in spec.obj:
        ops.append({"op": "add_objective", "expr": sub(ast)})
    if spec.method is not None:
        ops.append({"op": "method", "m": spec.method})
    if spec.solver is not None:
        ops.append({"op": "solver", "name": spec.solver[0], "opts": spec.solver[1]})
    if spec.cb:
        ops.append({"op": "callback"})
    for p, v in spec.values.items():
        if p in consts or p in exprs:
            continue
        ops.append({"op": "set_value", "p": p, "v": v})
    for x, g in spec.initial:
        if g[0] == "expr" and (cshape or exprs):
            g = ["expr", sub(g[1])]
        ops.append({"op": "set_initial", "x": x, "g": g})
    return jcopy(ops)


def flat_cm(v, rows, cols):
    """value (number | list | list of lists) -> flat column-major list of rows*cols numbers"""
    a = np.array(v, dtype=float)
    if a.ndim == 0:
        a = np.full((rows, cols), float(a))
    a = a.reshape((rows, cols)) if a.size == rows * cols else a
    return [float(x) for x in a.flatten(order="F")]


# ----------------------------------------------------------------------------------------------
# live actor
# ----------------------------------------------------------------------------------------------
def make_grid(g):
    from rockit import FreeGrid, GeometricGrid, UniformGrid

    g = g or {"cls": "Uniform"}
    kw = {}
    for k in ("localize_t0", "localize_T", "min", "max"):
        if k in g:
            kw[k] = g[k]
    if g["cls"] == "Uniform":
        return UniformGrid(**kw)
    if g["cls"] == "Geometric":
        return GeometricGrid(g.get("growth", 2), local=g.get("local", False), **kw)
    if g["cls"] == "Free":
        return FreeGrid(**kw)
    if g["cls"] == "DenseEdges":
        from rockit import DenseEdgesGrid

        return DenseEdgesGrid(multiplier=g.get("multiplier", 10), edge_frac=g.get("edge_frac", 0.1), **kw)
    raise ValueError(g)


def make_method(m):
    import rockit

    kw = dict(N=m.get("N", 3), M=m.get("M", 1))
    if "intg" in m:
        kw["intg"] = m["intg"]
    if m.get("intg_options"):
        kw["intg_options"] = m["intg_options"]
    if m.get("grid") is not None:
        kw["grid"] = make_grid(m["grid"])
    cls = m["cls"]
    if cls == "DirectMethod":
        return rockit.DirectMethod()
    if cls == "DirectCollocation":
        if "degree" in m:
            kw["degree"] = m["degree"]
        if "scheme" in m:
            kw["scheme"] = m["scheme"]
    if cls == "SplineMethod":
        kw.pop("M", None)
        kw.pop("intg", None)
    return getattr(rockit, cls)(**kw)


def make_value(v, kind=None):
    """JSON value -> what the user would pass (number, numpy array, DM or nested list)"""
    if isinstance(v, dict):  # {"as": "np|dm|list", "v": ...}
        kind = v.get("as", kind)
        v = v["v"]
    if isinstance(v, (int, float)):
        return v
    if kind == "dm":
        return ca.DM(np.array(v, dtype=float))
    if kind == "list":
        return v
    return np.array(v, dtype=float)


def raw_value(v):
    return v["v"] if isinstance(v, dict) else v


class Actor:
    """A live rockit Ocp (or Stage) with its symbol table and its reference model."""

    def __init__(self, name="A", parent=None):
        self.name = name
        self.ocp = None
        self.syms = {}
        self.spec = Spec()
        self.hidden = {}
        self.parent = parent  # owning actor (for stages, templates, clones)
        self.sub = {}  # name -> Actor wrapping a stage of this OCP
        self.templates = {}  # name -> Actor wrapping a free-standing template Stage

    @property
    def env(self):
        e = E.Env(self.ocp, self.syms)
        root = self.parent or self
        e.scope = root  # ["in", stage, ast] is resolved against the owning actor
        return e

    def node(self, name):
        """the (sub-)actor an op with "stage": name addresses"""
        if not name:
            return self
        if name in self.sub:
            return self.sub[name]
        if name in self.templates:
            return self.templates[name]
        raise KeyError(name)

    def tspec(self, ts):
        from rockit import FreeTime

        if ts[0] == "num":
            return ts[1]
        if ts[0] == "free":
            return FreeTime(ts[1])
        if ts[0] == "par":
            return self.syms[ts[1]]
        raise ValueError(ts)

    def target(self, x):
        if x == "T":
            return self.ocp.T
        if x == "t0":
            return self.ocp.t0
        return self.env.lookup(x)

    def guess(self, g):
        if g[0] == "num":
            return g[1]
        if g[0] == "arr":
            return make_value(g[1], g[2] if len(g) > 2 else "np")
        if g[0] == "expr":
            return E.inst(g[1], self.env)
        raise ValueError(g)

    def apply(self, op, update_spec=True):
        """Execute one specification op on the real object. Exceptions propagate (spec untouched)."""
        k = op["op"]
        if k in ("stage", "template", "clone"):
            return self._structure(op)
        tgt = self.node(op.get("stage"))
        r = tgt._apply(op)
        if update_spec:
            tgt.spec.apply(op)
        return r

    def _structure(self, op):
        from rockit import Stage

        k = op["op"]
        name = op["name"]
        if name in self.sub or name in self.templates:
            raise KeyError("duplicate " + name)
        kw = {}
        node = Actor(name, parent=self)
        if k == "clone":
            # the template may also be a stage that already belongs to the OCP (a copy of a stage)
            tpl = self.templates[op["template"]] if op["template"] in self.templates else self.sub[op["template"]]
            node.syms = dict(tpl.syms)  # a clone is addressed through its template's symbols
            node.spec = tpl.spec.clone()
        for key in ("T", "t0"):
            if key in op:
                kw[key] = node.tspec(op[key]) if op[key][0] != "par" else None
                setattr(node.spec, key, jcopy(op[key]))
        if k == "template":
            node.ocp = Stage(**kw)
            self.templates[name] = node
            return
        if k == "stage":
            node.ocp = self.ocp.stage(**kw)
        else:
            node.ocp = self.ocp.stage(tpl.ocp, **kw)
        self.sub[name] = node
        self.spec.stages.append([name, node.spec])

    def _apply(self, op):
        from rockit import Ocp

        k = op["op"]
        o = self.ocp
        if k == "new_ocp":
            kw = {}
            if "T" in op:
                kw["T"] = self.tspec(op["T"])
            if "t0" in op:
                kw["t0"] = self.tspec(op["t0"])
            if op.get("scale", 1) != 1:
                kw["scale"] = op["scale"]
            self.ocp = Ocp(**kw)
            self.syms = {}
            return
        if k == "sym":
            kind = op["kind"]
            r, c = op.get("rows", 1), op.get("cols", 1)
            kw = {}
            if op.get("scale", 1) != 1:
                kw["scale"] = op["scale"]
            if kind == "state":
                s = o.state(r, c, **kw)
            elif kind == "qstate":
                s = o.state(r, c, quad=True, **kw)
            elif kind == "hstate":
                s = o.control(r, c, order=op.get("order", 1), **kw)
            elif kind == "control":
                if op.get("order", 0):
                    kw["order"] = op["order"]
                s = o.control(r, c, **kw)
            elif kind == "algebraic":
                s = o.algebraic(r, c, **kw)
            elif kind == "parameter":
                s = o.parameter(r, c, grid=op.get("grid", ""), include_last=op.get("include_last", False), **kw)
            elif kind == "variable":
                s = o.variable(r, c, grid=op.get("grid", ""), include_last=op.get("include_last", False), **kw)
            else:
                raise ValueError(kind)
            self.syms[op["name"]] = s
            return
        if k == "set_der":
            kw = {}
            if op.get("scale", 1) != 1:
                kw["scale"] = op["scale"]
            return o.set_der(self.syms[op["state"]], E.inst(op["expr"], self.env), **kw)
        if k == "set_next":
            return o.set_next(self.syms[op["state"]], E.inst(op["expr"], self.env))
        if k == "add_alg":
            kw = {}
            if op.get("scale", 1) != 1:
                kw["scale"] = op["scale"]
            return o.add_alg(E.inst(op["expr"], self.env), **kw)
        if k == "subject_to":
            kw = {}
            for kk in ("grid", "include_first", "include_last", "scale", "refine"):
                if kk in op and op[kk] is not None:
                    kw[kk] = op[kk]
            return o.subject_to(E.inst(op["expr"], self.env), **kw)
        if k == "clear_constraints":
            return o.clear_constraints()
        if k == "add_objective":
            return o.add_objective(E.inst(op["expr"], self.env))
        if k == "set_T":
            return o.set_T(self.tspec(op["T"]))
        if k == "set_t0":
            return o.set_t0(self.tspec(op["t0"]))
        if k == "method":
            root = self.parent or self
            if op.get("obj"):
                # the user keeps one method object and hands it to several stages / several calls
                # ("Will not be modified", says rockit's docstring)
                reg = root.hidden.setdefault("method_objs", {})
                key = op["obj"] + json.dumps(op["m"], sort_keys=True)
                if key not in reg:
                    reg[key] = make_method(op["m"])
                return o.method(reg[key])
            return o.method(make_method(op["m"]))
        if k == "solver":
            if op.get("reuse"):
                # the user keeps one options dict, updates it in place and calls solver() again
                d = self.hidden.setdefault("solver_opts", {})
                d.clear()
                d.update(jcopy(op.get("opts", {})))
                return o.solver(op["name"], d)
            return o.solver(op["name"], jcopy(op.get("opts", {})))
        if k == "set_value":
            val = make_value(op["v"])
            if op.get("reuse") and isinstance(val, np.ndarray):
                # the user keeps one array per parameter, updates it in place and passes the same object again
                held = self.hidden.setdefault("held_values", {})
                old = held.get(op["p"])
                if isinstance(old, np.ndarray) and old.shape == val.shape:
                    old[...] = val
                    val = old
                else:
                    held[op["p"]] = val
            return o.set_value(self.env.lookup(op["p"]), val)
        if k == "set_value_expr":  # (specification fault) a value for something that is no parameter
            return o.set_value(E.inst(op["expr"], self.env), make_value(op["v"]))
        if k == "set_initial_cat":  # guess for a concatenation of symbols
            return o.set_initial(ca.vertcat(*[self.env.lookup(x) for x in op["xs"]]), self.guess(op["g"]))
        if k == "set_value_cat":
            return o.set_value(ca.vertcat(*[self.syms[p] for p in op["ps"]]), np.array(op["v"], dtype=float))
        if k == "set_initial":
            return o.set_initial(self.target(op["x"]), self.guess(op["g"]))
        if k == "callback":
            return o.callback(user_callback(self.name))
        raise ValueError("not a specification op: %r" % (k,))


def build(ops, name="F"):
    """Write a specification afresh: run a canonical program on a new actor."""
    a = Actor(name)
    for op in ops:
        a.apply(op)
    return a


# declared lists of the live object, for "transcribing never alters what the user declared"
def declared_fingerprint(stage):
    fp = {
        "states": [s.name() + str(s.shape) for s in stage.states],
        "qstates": [s.name() for s in stage.qstates],
        "controls": [s.name() + str(s.shape) for s in stage.controls],
        "algebraics": [s.name() for s in stage.algebraics],
        "parameters": {k: [s.name() for s in v] for k, v in sorted(stage.parameters.items()) if len(v)},
        "variables": {k: [s.name() for s in v] for k, v in sorted(stage.variables.items()) if len(v)},
        "ncons": {k: len(v) for k, v in sorted(stage._constraints.items()) if len(v)},
        "objective": str(stage._objective),
        "T": type(stage._T).__name__ + (str(stage._T) if not hasattr(stage._T, "T_init") else str(stage._T.T_init)),
        "t0": type(stage._t0).__name__ + (str(stage._t0) if not hasattr(stage._t0, "T_init") else str(stage._t0.T_init)),
        "nder": len(list(stage._state_der.keys())),
        "stages": [declared_fingerprint(s) for s in stage._stages],
    }
    return json.dumps(fp, sort_keys=True)
