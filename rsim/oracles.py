"""Extra oracles run at a `check` step (C09, C10)."""


def c09_constants(w, act, st, rec, fresh, recF):
    pass


def c10_absolute(w, act, st, rec, fresh, recF):
    pass
