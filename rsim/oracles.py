"""Extra oracles run at a `check` step (C09, C10).

They are *absolute*: expectations are computed by the reference model in numpy, independently
of rockit (node times from closed-form grids, guesses evaluated by `expr.evalnum`, parameter
vectors laid out by the model).
"""
import casadi as ca
import numpy as np

from . import expr as E
from .model import build, flat_cm, program, raw_value


def Violation(cls, detail):
    from .hist import Violation as V

    return V(cls, detail)


# ----------------------------------------------------------------------------------------------
# independent grid model
# ----------------------------------------------------------------------------------------------
def norm_grid(g, N):
    g = g or {"cls": "Uniform"}
    if g["cls"] in ("Uniform", "Free"):
        return [k / N for k in range(N + 1)]
    if g["cls"] == "DenseEdges":
        return dense_edges_grid(g.get("multiplier", 10), g.get("edge_frac", 0.1), N)
    if g["cls"] == "Geometric":
        gf = float(g.get("growth", 2))
        if not g.get("local", False) and N > 1:
            gf = gf ** (1.0 / (N - 1))
        w = [gf ** k for k in range(N)]
        tot = sum(w)
        out = [0.0]
        for x in w:
            out.append(out[-1] + x / tot)
        return out
    raise ValueError(g)


_DE_CACHE = {}


def dense_edges_grid(multiplier, edge_frac, N):
    """grid points t_i with E(t_i) = i/N, E the normalised integral of the density; computed here by fine
    quadrature of CasADi's interpolant and inversion in numpy, independently of rockit's own integrator + bisection
    (agreement to ~1e-6)"""
    key = (multiplier, edge_frac, N)
    if key not in _DE_CACHE:
        interp = ca.interpolant("interp", "bspline", [[0.0, edge_frac, 1 - edge_frac, 1.0]], [multiplier, 1.0, 1.0, multiplier], {"algorithm": "smooth_linear"})
        tt = np.linspace(0.0, 1.0, 20001)
        dens = np.array(interp(tt.reshape((1, -1)))).flatten()
        cum = np.concatenate([[0.0], np.cumsum((dens[1:] + dens[:-1]) / 2 * np.diff(tt))])
        cum /= cum[-1]
        _DE_CACHE[key] = [float(np.interp(i / N, cum, tt)) for i in range(N + 1)]
        _DE_CACHE[key][0], _DE_CACHE[key][-1] = 0.0, 1.0
    return _DE_CACHE[key]


def grid_absolute(w, act, st, rec, fresh, recF):
    """the control grid the solver starts from is t0 + n_k T with n_k from the independent grid model.  This is the
    one place where an error shared by the freshly written OCP (e.g. a process-global cache of computed grids) shows."""
    spec = act.spec
    m = spec.method
    if m is None or "_opti" not in rec or spec.stages:
        return
    tc, _ = times(spec)
    try:
        got = _eval(rec["_opti"], rec, act.ocp.sample(act.ocp.t, grid="control")[1]).flatten()
    except Exception:
        return
    tol = 1e-4 if (m.get("grid") or {}).get("cls") == "DenseEdges" else 1e-9
    if got.shape != (len(tc),) or not np.allclose(got, np.array(tc), rtol=tol, atol=tol):
        raise Violation("grid-times", "control grid at the starting point %s, grid model %s (grid %s, N=%d)" % (
            np.round(got, 6).tolist(), np.round(tc, 6).tolist(), m.get("grid"), m["N"]))
    w.probe("grid_times_checked")


def horizon_guess(spec):
    """(t0_guess, T_guess) as the model expects the solver to start from"""
    ini = dict((x, g) for x, g in spec.initial)

    def one(ts, name):
        if ts[0] == "num":
            return float(ts[1])
        if ts[0] == "par":
            return float(np.array(raw_value(spec.values[ts[1]])).flatten()[0])
        if name in ini:
            return float(ini[name][1])
        return float(ts[1])

    return one(spec.t0, "t0"), one(spec.T, "T")


def times(spec):
    m = spec.method
    N, M = m["N"], m.get("M", 1)
    t0, T = horizon_guess(spec)
    n = norm_grid(m.get("grid"), N)
    tc = [t0 + x * T for x in n]
    ti = []  # integrator nodes (k,i)
    for k in range(N):
        dt = (tc[k + 1] - tc[k]) / M
        for i in range(M):
            ti.append((k, i, tc[k] + i * dt, dt))
    return tc, ti


def guess_matrix(g, rows, times_, cols_of, vals=None):
    """expected physical values, shape rows x len(times_).  cols_of[j] = column index into an array guess"""
    n = len(times_)
    out = np.zeros((rows, n))
    if g is None:
        return out
    if g[0] == "num":
        out[:, :] = float(g[1])
        return out
    if g[0] == "arr":
        a = np.array(raw_value(g[1]), dtype=float)
        if a.ndim == 1:
            a = a.reshape((1, -1))
        if a.shape[1] == 1 and rows > 1 or a.shape == (rows, 1):
            out[:, :] = a.reshape((rows, 1))
            return out
        for j in range(n):
            out[:, j] = a[:, cols_of[j]]
        return out
    if g[0] == "expr":
        ast = g[1]
        comps = ast[1:] if ast[0] == "vec" else [ast] * rows
        for r in range(rows):
            for j in range(n):
                out[r, j] = E.evalnum(comps[r], t=times_[j], vals=vals)
        return out
    raise ValueError(g)


def _eval(opti, rec, e):
    """value at the starting point (the documented observation point opti.value(expr, opti.initial()));
    this also covers decision variables that Opti drops from the NLP because nothing depends on them"""
    e = ca.MX(e)
    v = opti.debug.value(e, opti.initial())
    return np.array(ca.DM(v)).reshape(e.shape, order="F") if not isinstance(v, float) else np.array([[v]])


def c10_absolute(w, act, st, rec, fresh, recF):
    """the physical starting value of every labelled decision variable equals the model's prediction"""
    spec = act.spec
    m = spec.method
    if m is None or "_opti" not in rec:
        return
    dense = (m.get("grid") or {}).get("cls") == "DenseEdges"  # node times from a numerical inversion: compare to 1e-4
    opti = rec["_opti"]
    ocp = act.ocp
    N, M = m["N"], m.get("M", 1)
    cls = m["cls"]
    tc, ti = times(spec)
    ini = dict((x, g) for x, g in spec.initial)
    # current values of scalar global parameters (a guess may mention them)
    pvals = {}
    for p_ in spec.names("parameter"):
        v_ = raw_value(spec.values.get(p_, 0.0)) if p_ in spec.values else None
        if isinstance(v_, (int, float)):
            pvals[p_] = float(v_)
    checked = 0
    covered = None

    def cmp(name, what, got, exp):
        nonlocal checked
        got = np.array(got, dtype=float).reshape(exp.shape) if np.size(got) == exp.size else np.array(got, dtype=float)
        tol = (1e-3, 1e-3) if (dense and g is not None and g[0] == "expr") else (1e-9, 1e-11)
        if got.shape != exp.shape or not np.allclose(got, exp, rtol=tol[0], atol=tol[1], equal_nan=True):
            raise Violation("start-differs", "%s %s: solver starts from %s, guess implies %s (guess %s, method %s N=%d M=%d)" % (
                name, what, np.round(got, 6).tolist(), np.round(exp, 6).tolist(), ini.get(name), cls, N, M))
        checked += exp.size

    jac_cols = np.zeros(rec["nx"], dtype=bool)

    def cover(e):
        try:
            sp = ca.jacobian(ca.MX(e), opti.x).sparsity()
            for c in set(sp.get_col()):
                jac_cols[c] = True
        except Exception:
            pass

    for s in spec.syms:
        name, kind = s["name"], s["kind"]
        rows = s.get("rows", 1) * s.get("cols", 1)
        g = ini.get(name)
        sym = act.syms[name]
        if kind in ("state", "hstate"):
            e = ocp.sample(sym, grid="control")[1]
            exp = guess_matrix(g, rows, tc, list(range(N + 1)), pvals)
            if cls == "SingleShooting":
                # only x(t0) is a decision variable (the later nodes would need the integrator to be evaluated)
                cmp(name, "at node 0", _eval(opti, rec, e[:, 0]), exp[:, :1])
                cover(e[:, 0])
                continue
            cmp(name, "at control nodes", _eval(opti, rec, e), exp)
            cover(e)
            if cls == "DirectCollocation":
                e = ocp.sample(sym, grid="integrator")[1]
                tt = [t for (_, _, t, _) in ti] + [tc[-1]]
                cols = [k for (k, _, _, _) in ti] + [-1]
                cmp(name, "at integrator nodes", _eval(opti, rec, e), guess_matrix(g, rows, tt, cols, pvals))
                cover(e)
                tau = ca.collocation_points(m.get("degree", 4), m.get("scheme", "radau"))
                e = ocp.sample(sym, grid="integrator_roots")[1]
                tt, cols = [], []
                for (k, i, t, dt) in ti:
                    for tj in tau:
                        tt.append(t + dt * tj)
                        cols.append(k)
                cmp(name, "at collocation points", _eval(opti, rec, e), guess_matrix(g, rows, tt, cols, pvals))
                cover(e)
        elif kind == "control":
            e = ocp.sample(sym, grid="control")[1][:, :N]
            cmp(name, "on control intervals", _eval(opti, rec, e), guess_matrix(g, rows, tc[:N], list(range(N)), pvals))
            cover(e)
        elif kind == "variable":
            grid = s.get("grid", "")
            if grid == "":
                e = ocp.value(sym)
                cmp(name, "(global)", _eval(opti, rec, e).reshape((rows, 1)), guess_matrix(g, rows, [tc[0]], [0], pvals))
                cover(e)
            elif s.get("include_last"):
                e = ocp.sample(sym, grid="control")[1]
                cmp(name, "at control nodes", _eval(opti, rec, e), guess_matrix(g, rows, tc, list(range(N + 1)), pvals))
                cover(e)
            else:
                e = ocp.sample(sym, grid="control")[1][:, :N]
                cmp(name, "on control intervals", _eval(opti, rec, e), guess_matrix(g, rows, tc[:N], list(range(N)), pvals))
                cover(e)
        elif kind == "algebraic" and cls == "DirectCollocation":
            deg = m.get("degree", 4)
            tau = ca.collocation_points(deg, m.get("scheme", "radau"))
            e = ocp.sample(sym, grid="integrator_roots")[1]
            tt, cols = [], []
            for (k, i, t, dt) in ti:
                for tj in tau:
                    tt.append(t + dt * tj)
                    cols.append(k)
            cmp(name, "at collocation points", _eval(opti, rec, e), guess_matrix(g, rows, tt, cols, pvals))
            cover(e)
    t0g, Tg = horizon_guess(spec)
    if spec.T[0] == "free":
        e = ocp.value(ocp.T)
        cmp("T", "", _eval(opti, rec, e).reshape((1, 1)), np.array([[Tg]]))
        cover(e)
    if spec.t0[0] == "free":
        e = ocp.value(ocp.t0)
        cmp("t0", "", _eval(opti, rec, e).reshape((1, 1)), np.array([[t0g]]))
        cover(e)
    w.probe("c10_start_values_checked")
    w.stats["probes"]["c10_entries_checked"] = w.stats["probes"].get("c10_entries_checked", 0) + checked
    unc = int(rec["nx"] - jac_cols.sum())
    if unc:
        w.stats["probes"]["c10_unlabelled_decision_vars"] = w.stats["probes"].get("c10_unlabelled_decision_vars", 0) + unc
        # never given a guess by the model's account -> must start at zero
        x0 = np.asarray(rec["x0"])
        if np.any(np.abs(x0[~jac_cols]) > 1e-12):
            w.probe("c10_unlabelled_nonzero")
    # guesses never change the objective or the constraints (not judged with a built-in DAE integrator and a guess for
    # an algebraic variable: that guess is the integrator's own starting value and moves its result within its tolerance)
    # (nor with any built-in integrator: its rootfinder / step control keeps memory between calls, so what it returns at a
    #  probe point depends on the evaluation at the starting point that came before -- seen: [0, 0] against [nan, nan])
    builtin_dae = m.get("intg") in ("idas", "collocation", "cvodes")
    if spec.initial and not builtin_dae:
        sp2 = spec.clone()
        sp2.initial = []
        try:
            bare = build(program(sp2), "bare")
            recB = w.handoff(bare)
        except Exception:
            recB = None
        if recB is not None:
            for k in ("nx", "ng", "np"):
                if rec[k] != recB[k]:
                    raise Violation("guess-changes-nlp", "sizes differ with/without guesses: %s %d vs %d" % (k, rec[k], recB[k]))
            from .seams import _close

            if not (_close(rec["f"][1:], recB["f"][1:]) and all(_close(a, b) for a, b in zip(rec["g"][1:], recB["g"][1:]))
                    and _close(rec["lbg"], recB["lbg"]) and _close(rec["ubg"], recB["ubg"])):
                raise Violation("guess-changes-nlp", "objective / constraints at the probe points differ with and without the guesses")
            w.probe("c10_nlp_unchanged_by_guesses")


def c10_edit_raised(w, act, st, step, e):
    if step["op"] == "set_initial" and step.get("expect") != "reject":
        raise Violation("guess-raises", "set_initial(%s, %s) raised %s: %s [method %s]" % (
            step["x"], step["g"], type(e).__name__, str(e)[:200], (act.spec.method or {}).get("cls")))


def c10_fresh_failure(w, act, err):
    """the final specification does not transcribe: is a guess to blame?"""
    spec = act.spec
    if not spec.initial:
        return
    sp2 = spec.clone()
    sp2.initial = []
    try:
        bare = build(program(sp2), "bare")
        w.handoff(bare)
    except Exception:
        return  # ill-posed for other reasons
    raise Violation("guess-raises", "the specification transcribes without its initial guesses but raises with them: %s: %s [guesses %s, method %s]" % (
        type(err).__name__, str(err)[:200], spec.initial, (spec.method or {}).get("cls")))


# ----------------------------------------------------------------------------------------------
# C09
# ----------------------------------------------------------------------------------------------
def c09_constants(w, act, st, rec, fresh, recF):
    """values written in as constants: global / matrix / horizon parameters are replaced by numbers"""
    spec = act.spec
    consts = {}
    for p in spec.names("parameter"):
        s = spec.sym(p)
        if s.get("grid", "") == "" and p in spec.values:
            consts[p] = raw_value(spec.values[p])
    # node-only per-interval parameters whose values are samples of a known function of time: write q(t) in their place
    exprs = {}
    from .gen import node_times

    tc = node_times(spec)
    for p in spec.names("parameter"):
        s = spec.sym(p)
        v = spec.values.get(p)
        if not s.get("node_only") or not isinstance(v, dict) or "fn" not in v or tc is None:
            continue
        ncol = spec.method["N"] + (1 if s.get("include_last") else 0)
        vals = np.array(raw_value(v), dtype=float).flatten()
        exp = np.array([round(E.evalnum(v["fn"], t=tc[k]), 10) for k in range(ncol)])
        if vals.shape == exp.shape and np.allclose(vals, exp, rtol=0, atol=1e-12):
            exprs[p] = v["fn"]
            w.probe("c09_node_only_parameter_as_function_of_time")
        else:
            w.probe("c09_node_only_parameter_values_outdated")  # horizon / grid changed since the values were sampled
    # per-interval scalar parameters anywhere (dynamics, integrals, constraints): with a method that never evaluates the
    # model at the right end of an interval (explicit Euler; collocation at interior Legendre points) and fixed node times,
    # column k on interval k is the same as a piecewise constant function of time written in its place
    m_ = spec.method or {}
    interior = (m_.get("cls") in ("SingleShooting", "MultipleShooting") and m_.get("intg") == "expl_euler" and not spec.nxt) or \
               (m_.get("cls") == "DirectCollocation" and m_.get("scheme") == "legendre")
    if interior and tc is not None:
        N_ = m_["N"]
        for p in spec.names("parameter"):
            s = spec.sym(p)
            if s.get("grid", "") != "control" or s.get("rows", 1) * s.get("cols", 1) != 1 or p in exprs or p not in spec.values:
                continue
            a = np.array(raw_value(spec.values[p]), dtype=float).flatten()
            ncol = N_ + 1 if s.get("include_last") else N_
            if a.size == 1:
                a = np.full(ncol, float(a[0]))
            if a.size != ncol:
                continue
            vals = [float(x) for x in a] + ([] if s.get("include_last") else [float(a[-1])])  # (rockit: last column at tf)
            exprs[p] = ["pwg", vals, [float(x) for x in tc]]
            w.probe("c09_per_interval_parameter_as_piecewise_constant")
    # a per-interval scalar parameter whose columns all hold the same number is that number, with every method and grid
    uniform = []
    for p in spec.names("parameter"):
        s = spec.sym(p)
        if s.get("grid", "") != "control" or s.get("rows", 1) * s.get("cols", 1) != 1 or p in exprs or p not in spec.values:
            continue
        a = np.array(raw_value(spec.values[p]), dtype=float).flatten()
        if a.size >= 1 and np.all(a == a[0]):
            exprs[p] = ["mx", float(a[0])]  # (a constant MX: rockit accepts it inside next / prev / integral / sum)
            uniform.append(p)
            w.probe("c09_uniform_per_interval_parameter_as_constant")
    if not consts and not exprs:
        return
    # a guess expression may not mention parameters in this workload, so guesses carry over unchanged
    try:
        hard = build(program(spec, consts=consts, exprs=exprs), "const")
        recC = w.handoff(hard)
    except Exception as e:
        raise Violation("constants-version-raises", "the OCP with the values written in as constants does not transcribe: %s %s" % (type(e).__name__, str(e)[:200]))
    from .seams import _close

    for k in ("nx", "ng"):
        if rec[k] != recC[k]:
            raise Violation("param-vs-constant:size", "%s: %d (parametric) vs %d (constants)" % (k, rec[k], recC[k]))
    from .seams import well_conditioned

    pts = well_conditioned(rec, recC)
    # an adaptive built-in integrator (cvodes / idas / collocation with a rootfinder) reproduces itself only within its
    # own tolerance when the same number arrives as a parameter or as a constant
    # (variable-step cvodes / idas: an unstable generated system integrated over a long interval amplifies the difference
    #  between the two step sequences; 2e-5 was seen on values of ~150 -> judged to 1e-3 there)
    intg_ = (spec.method or {}).get("intg")
    rt, at = (1e-3, 1e-5) if intg_ in ("cvodes", "idas") else (1e-5, 1e-7) if intg_ == "collocation" else (1e-8, 1e-10)
    from .seams import insensitive_points

    n_pts = len(pts)
    pts = insensitive_points(rec, pts, w.probe_seed, rt, at)
    if len(pts) < n_pts:
        w.probe("c09_hidden_ill_conditioning_points_skipped", n_pts - len(pts))
    if len(pts) < len(rec["f"]):
        w.probe("c09_ill_conditioned_probe_points_skipped", len(rec["f"]) - len(pts))
    for what, a, b in (("f", [rec["f"][i] for i in pts], [recC["f"][i] for i in pts]), ("lbg", rec["lbg"], recC["lbg"]), ("ubg", rec["ubg"], recC["ubg"]), ("x0", rec["x0"], recC["x0"])):
        if not _close(a, b, rtol=rt, atol=at):
            raise Violation("param-vs-constant:" + what, "%s differs between the parametric OCP and the one with constants: %s vs %s" % (
                what, np.round(np.asarray(a, dtype=float), 8).tolist()[:8], np.round(np.asarray(b, dtype=float), 8).tolist()[:8]))
    for i in pts:
        if not _close(rec["g"][i], recC["g"][i], rtol=rt, atol=at):
            raise Violation("param-vs-constant:g", "g differs at probe %d between the parametric OCP and the one with constants" % i)
    w.probe("c09_constants_equal")
    # read-back: sampling a per-interval parameter on the control grid returns column k at node k and, at the final
    # node, the last interval's column (or the extra column with include_last)
    if "_opti" in rec and spec.method is not None:
        opti = rec["_opti"]
        N = spec.method["N"]
        for p in spec.names("parameter"):
            s = spec.sym(p)
            if s.get("grid", "") != "control" or p not in spec.values:
                continue
            rows = s.get("rows", 1)
            ncol = N + 1 if s.get("include_last") else N
            a = np.array(raw_value(spec.values[p]), dtype=float)
            if a.ndim == 0:
                a = np.full((rows, ncol), float(a))
            a = a.reshape((rows, ncol))
            exp = a if s.get("include_last") else np.hstack([a, a[:, -1:]])
            try:
                got = _eval(opti, rec, act.ocp.sample(act.syms[p], grid="control")[1])
            except Exception as e:
                raise Violation("param-sample-raises", "sampling per-interval parameter %s raised %s: %s" % (p, type(e).__name__, str(e)[:160]))
            if got.shape != exp.shape or not np.allclose(got, exp, rtol=1e-12, atol=1e-12):
                raise Violation("param-sample", "sample(%s, grid='control') reads %s, values given %s (include_last=%s)" % (
                    p, np.round(got, 6).tolist(), np.round(exp, 6).tolist(), bool(s.get("include_last"))))
            w.probe("c09_param_sample_readback")
            # the same on the refined integrator grid: every point of interval k shows column k, the final point the
            # final node's value
            M_ = spec.method.get("M", 1)
            try:
                e_fine = act.ocp.sample(act.syms[p], grid="integrator", refine=2)[1]
                got = _eval(opti, rec, e_fine)
            except Exception:
                w.probe("c09_refined_sample_unavailable")
                continue
            per = M_ * 2
            expf = np.hstack([np.repeat(a[:, k:k + 1], per, axis=1) for k in range(N)] + [exp[:, -1:]])
            if got.shape != expf.shape or not np.allclose(got, expf, rtol=1e-12, atol=1e-12):
                raise Violation("param-sample", "sample(%s, grid='integrator', refine=2) reads %s, values given imply %s (include_last=%s)" % (
                    p, np.round(got, 6).tolist(), np.round(expf, 6).tolist(), bool(s.get("include_last"))))
            w.probe("c09_param_refined_sample_readback")
    # the solver-visible parameter vector, predicted entry by entry by the model
    created = expected_p(spec)
    if created is not None and "_opti" in rec:
        opti = rec["_opti"]
        adv = opti.advanced
        exp = []
        try:
            for sym in ca.symvar(opti.p):
                i = adv.get_meta(sym).i
                exp += list(created[i])
        except Exception as e:
            w.probe("c09_param_vector_unpredictable")
            return
        if len(exp) != len(rec["p"]) or not _close(exp, rec["p"]):
            raise Violation("param-vector", "solver-visible parameter vector %s, model predicts %s" % (np.round(rec["p"], 6).tolist(), np.round(exp, 6).tolist()))
        w.probe("c09_param_vector_predicted")


def expected_p(spec):
    """the Opti parameters in the order rockit's sampling methods create them, with the value the model
    expects in each: globals in declaration order, then per-interval (one per interval k = column k),
    then per-interval+ (N+1, the extra one for the final node)."""
    m = spec.method
    if m is None or spec.names("algebraic") or m["cls"] not in ("SingleShooting", "MultipleShooting", "DirectCollocation"):
        return None
    N = m["N"]
    out = []
    for grid, il, ncol in (("", False, None), ("control", False, N), ("control", True, N + 1)):
        for p in spec.names("parameter"):
            s = spec.sym(p)
            if s.get("grid", "") != grid or bool(s.get("include_last", False)) != il:
                continue
            rows, cols = s.get("rows", 1), s.get("cols", 1)
            v = raw_value(spec.values[p])
            if ncol is None:
                out.append(flat_cm(v, rows, cols))
            else:
                a = np.array(v, dtype=float)
                if a.ndim == 0:
                    a = np.full((rows, ncol), float(a))
                a = a.reshape((rows, ncol))
                for k in range(ncol):
                    out.append([float(x) for x in a[:, k]])
    return out


# ----------------------------------------------------------------------------------------------
# C18
# ----------------------------------------------------------------------------------------------
def c18_edit_raised(w, act, st, step, e):
    """a loaded OCP must accept what the same specification, freshly written, accepts (its symbols are
    'reachable through the usual accessors'): an edit refused by the loaded OCP only is a violation"""
    if st.get("gen", 0) < 1 or step.get("expect") == "reject":
        return
    try:
        fresh = build(program(act.spec), "fresh")
        if st.get("transcribed"):
            w.handoff(fresh)
    except Exception:
        return
    try:
        fresh.apply(step)
    except Exception:
        return  # refused by a freshly written OCP as well
    raise Violation("loaded-rejects-edit", "%s is refused by the loaded OCP (%s: %s) but accepted by the same specification written afresh" % (
        {k: v for k, v in step.items() if k in ("op", "x", "p", "g", "v")}, type(e).__name__, str(e)[:160]))
