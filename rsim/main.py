"""entry point (a script, not `-m`, so that no module is loaded twice)"""
import os
import sys

sys.path.insert(0, os.path.dirname(os.path.dirname(os.path.abspath(__file__))))
sys.path.insert(0, os.environ.get("RSIM_REPO", "/repo"))

if __name__ == "__main__":
    from rsim import check

    sys.exit(check.main(sys.argv[1:]))
