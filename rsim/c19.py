"""C19 -- to_function reproduces the set_value / set_initial / solve / sample pipeline.

A run: a generated solver-friendly (strictly convex, linear dynamics) OCP goes through a short
seeded history (value / guess updates, stubbed solves with injected failures, method re-declaration),
then `to_function(name, args, results)` is taken; later steps change *unlisted* values; the function is
evaluated at seeded argument values.  Oracle: a replica written afresh from the reference model as it
was when to_function was called, driven imperatively with the same values (set_value / set_initial /
solve / sol.sample, sol.value) by the *real* solver.  Two solver modes:
  map  : sqpmethod with max_iter=0 returns its starting point, so the comparison exposes exactly how
         arguments are mapped to x0 and p (exact, 1e-10)
  conv : ipopt to convergence on the strictly convex problem (1e-6)
"""
import hashlib
import json
import random

import casadi as ca
import numpy as np

from . import gen as G
from . import seams as S
from .hist import Discard, Violation
from .model import Actor, build, jcopy, program

SOLVERS = {
    "map": ["sqpmethod", {"max_iter": 0, "print_time": False, "print_header": False, "print_iteration": False, "print_status": False,
                          "qpsol": "qrqp", "qpsol_options": {"print_iter": False, "print_header": False, "print_info": False, "error_on_fail": False}}],
    "conv": ["ipopt", {"ipopt.print_level": 0, "print_time": False, "ipopt.tol": 1e-10, "ipopt.max_iter": 200}],
    # loose: stops early, so the result depends on the starting point; both sides run the same deterministic
    # algorithm from what must be the same (x0, p), so the comparison can still be tight
    "loose": ["ipopt", {"ipopt.print_level": 0, "print_time": False, "ipopt.tol": 1e-2, "ipopt.max_iter": 60}],
}


def gen_convex(r):
    """strictly convex OCP with linear dynamics; all scales 1"""
    import os

    deep = os.environ.get("RSIM_TIER") == "thorough"
    ops = []
    N = r.randint(2, 7 if deep else 4)
    cls = G.pick(r, ["MultipleShooting", "MultipleShooting", "SingleShooting", "DirectCollocation"])
    ops.append({"op": "new_ocp", "T": ["num", G.positive_value(r)], "t0": ["num", G.pick(r, [0, 0, G.rnum(r, -1, 1)])]})
    nx, nu = r.randint(1, 3 if deep else 2), r.randint(1, 2)
    xs = ["x%d" % (i + 1) for i in range(nx)]
    us = ["u%d" % (i + 1) for i in range(nu)]
    for x in xs:
        ops.append({"op": "sym", "name": x, "kind": "state"})
    for u in us:
        ops.append({"op": "sym", "name": u, "kind": "control"})
    ps, pcs, vs = [], [], []
    for i in range(r.randint(1, 2)):
        ps.append("p%d" % (len(ps) + len(pcs) + 1))
        ops.append({"op": "sym", "name": ps[-1], "kind": "parameter"})
    if r.random() < 0.5:
        pcs.append("p%d" % (len(ps) + len(pcs) + 1))
        ops.append({"op": "sym", "name": pcs[-1], "kind": "parameter", "grid": "control"})
    if r.random() < 0.4:
        vs.append("v1")
        ops.append({"op": "sym", "name": "v1", "kind": "variable"})
    vcs = []
    if r.random() < 0.3:
        vcs.append("v%d" % (len(vs) + 1))
        ops.append({"op": "sym", "name": vcs[-1], "kind": "variable", "grid": "control"})
    zs = []
    if cls == "DirectCollocation" and r.random() < 0.4:
        zs.append("z1")  # index-1 DAE: z is a linear output of x and u
        ops.append({"op": "sym", "name": "z1", "kind": "algebraic"})
    for x in xs:
        e = ["*", ["c", G.rnum(r, -1, 1)], ["s", G.pick(r, xs)]]
        e = ["+", e, ["*", ["c", G.rnum(r)], ["s", G.pick(r, us)]]]
        if r.random() < 0.7:
            e = ["+", e, ["*", ["c", G.rnum(r, -1, 1)], ["s", G.pick(r, ps)]]]
        if pcs and r.random() < 0.7:
            e = ["+", e, ["*", ["c", G.rnum(r, -1, 1)], ["s", pcs[0]]]]
        if vs and r.random() < 0.5:
            e = ["+", e, ["*", ["c", G.rnum(r, -1, 1)], ["s", vs[0]]]]
        if vcs and r.random() < 0.7:
            e = ["+", e, ["*", ["c", G.rnum(r, -1, 1)], ["s", vcs[0]]]]
        if zs and r.random() < 0.8:
            e = ["+", e, ["*", ["c", G.rnum(r, -1, 1)], ["s", zs[0]]]]
        ops.append({"op": "set_der", "state": x, "expr": e})
    for z in zs:
        ops.append({"op": "add_alg", "expr": ["-", ["s", z], ["+", ["*", ["c", G.rnum(r, -1, 1)], ["s", xs[0]]], ["*", ["c", G.rnum(r, -1, 1)], ["s", us[0]]]]]})
    ops.append({"op": "subject_to", "expr": ["==", ["at_t0", ["s", xs[0]]], ["s", ps[0]]]})
    for x in xs[1:]:
        ops.append({"op": "subject_to", "expr": ["==", ["at_t0", ["s", x]], ["c", G.rnum(r)]]})
    for u in us:
        ops.append({"op": "subject_to", "expr": ["box", ["c", -5.0], ["s", u], ["c", 5.0]]})
    quad = None
    for sname in xs + us + vcs + zs:
        t = ["*", ["c", round(r.uniform(0.5, 2.0), 2)], ["sq", ["-", ["s", sname], ["c", G.rnum(r, -1, 1)]]]]
        quad = t if quad is None else ["+", quad, t]
    ops.append({"op": "add_objective", "expr": ["int", quad]})
    ops.append({"op": "add_objective", "expr": ["at_tf", ["sq", ["s", xs[-1]]]]})
    for v in vs:
        ops.append({"op": "add_objective", "expr": ["sq", ["-", ["s", v], ["c", G.rnum(r)]]]})
    m = {"cls": cls, "N": N, "M": r.randint(1, 2)}
    if cls == "DirectCollocation":
        m["degree"] = r.randint(1, 3)
        m["scheme"] = G.pick(r, ["radau", "legendre"])
    else:
        m["intg"] = G.pick(r, ["rk", "expl_euler"])
    if zs:
        # interior collocation points and a uniform grid, so that "the guess of interval k" can be written as a
        # piecewise constant function of time on the imperative side
        m["scheme"] = "legendre"
    elif r.random() < 0.3:
        m["grid"] = {"cls": "Geometric", "growth": 2, "local": r.random() < 0.5}
    ops.append({"op": "method", "m": m})
    mode = G.pick(r, ["map", "map", "conv", "loose"])
    sopts = jcopy(SOLVERS[mode][1])
    if SOLVERS[mode][0] == "ipopt" and r.random() < 0.5:
        # the same options in CasADi's nested form {"ipopt": {...}} instead of dotted keys
        nested = {k[len("ipopt."):]: v for k, v in sopts.items() if k.startswith("ipopt.")}
        sopts = {k: v for k, v in sopts.items() if not k.startswith("ipopt.")}
        sopts["ipopt"] = nested
    ops.append({"op": "solver", "name": SOLVERS[mode][0], "opts": sopts})
    for p in ps:
        ops.append({"op": "set_value", "p": p, "v": G.rnum(r)})
    for p in pcs:
        ops.append({"op": "set_value", "p": p, "v": {"as": "np", "v": [[G.rnum(r) for _ in range(N)]]}})
    info = {"xs": xs, "us": us, "ps": ps, "pcs": pcs, "vs": vs, "vcs": vcs, "zs": zs, "N": N, "cls": cls, "mode": mode}
    return ops, info


def gen_to_function(r, info):
    N, cls = info["N"], info["cls"]
    cands = [["value", p] for p in info["ps"] if p not in info.get("guess_params", ())] + [["sample_p", p] for p in info["pcs"]]
    cands += [["value_v", v] for v in info["vs"] if v not in info.get("chain_deps", ())] + [["sample_v", v] for v in info["vcs"]]
    # CasADi accepts purely symbolic arguments only: DirectCollocation keeps all states (controls) of a node in
    # one variable, so there only the whole vector can be listed
    whole = cls == "DirectCollocation"
    if whole and len(info["us"]) > 1:
        cands += [["sample_uall", "*"]]
    else:
        cands += [["sample_u", u] for u in info["us"]]
    if cls != "SingleShooting":
        if whole and len(info["xs"]) > 1:
            cands += [["sample_xall", "*"]]
        else:
            for x in info["xs"]:
                # 'control-' leaves out the final node; used only for a state without a current guess, so that the
                # final node provably starts from zero on both sides
                if x not in info.get("guessed", ()) and r.random() < 0.4:
                    cands.append(["sample_x-", x])
                else:
                    cands.append(["sample_x", x])
    r.shuffle(cands)
    args = cands[: r.randint(1, len(cands))]
    if info.get("zs") and r.random() < 0.7:
        args = [a for a in args] + [["z", "*"]]  # DirectCollocation's literal "z": guesses of the algebraic variables
    res = []
    for x in info["xs"]:
        if r.random() < 0.7:
            res.append(["sample", x, "control"])
        if r.random() < 0.4:  # helper states between the control nodes are part of the solution as well
            res.append(["sample", x, "integrator"])
        if cls == "DirectCollocation" and r.random() < 0.4:
            res.append(["sample", x, "integrator_roots"])
    for u in info["us"]:
        if r.random() < 0.5:
            res.append(["sample", u, "control"])
    for v in info["vs"]:
        res.append(["value", v])
    for z in info.get("zs", []):
        res.append(["sample", z, "integrator_roots"])
    if not res:
        res.append(["sample", info["xs"][0], "control"])
    if r.random() < 0.5:
        res.append(["objective"])
    vals = []
    for a in args:
        k = a[0]
        if k in ("value", "value_v"):
            vals.append(G.rnum(r))
        else:
            vals.append(gen_val(r, a, info))
    return args, res, vals


def gen_val(r, a, info):
    N = info["N"]
    k = a[0]
    if k in ("value", "value_v"):
        return G.rnum(r)
    if k in ("sample_p", "sample_u", "sample_v", "sample_x-"):
        return [[G.rnum(r) for _ in range(N)]]
    if k == "sample_uall":
        return [[G.rnum(r) for _ in range(N)] for _ in info["us"]]
    if k == "z":
        return [[G.rnum(r) for _ in range(N + 1)] for _ in info["zs"]]
    if k == "sample_xall":
        return [[G.rnum(r) for _ in range(N + 1)] for _ in info["xs"]]
    return [[G.rnum(r) for _ in range(N + 1)]]


class World19:
    def __init__(self, probe_seed):
        self.probe_seed = probe_seed
        self.seam = S.SolverSeam(probe_seed)
        self.seam.install()
        self.act = Actor("A")
        self.log = []
        self.funs = {}
        self.stats = {"faults": {}, "probes": {}, "ops": {}, "checks": 0, "checks_equal": 0}
        self.tainted = False

    def probe(self, k, n=1):
        self.stats["probes"][k] = self.stats["probes"].get(k, 0) + n

    def execute(self, i, step):
        k = step["op"]
        try:
            with S.Silence():
                out = self._execute(step, k)
        except Violation as v:
            v.step = i
            self.log.append([i, k, "VIOLATION:" + v.cls])
            raise
        self.log.append([i, k, out])
        self.stats["ops"][k] = self.stats["ops"].get(k, 0) + 1
        return out

    def _execute(self, step, k):
        a = self.act
        if k == "new_ocp":
            a.apply(step)
            return "ok"
        if a.ocp is None:
            return "skipped"
        if k == "solve":
            self.seam.mode = step.get("mode", "stub")
            self.seam.next_fault = step.get("fault")
            n0 = self.seam.reached
            try:
                a.ocp.solve() if step.get("how", "solve") == "solve" else a.ocp.solve_limited()
                out = "ok"
                if step.get("mode") == "real":
                    self.probe("real_solve_succeeded")
            except (S.SolverFailure, KeyboardInterrupt):
                out = "raised:solver"
                f = "solver_" + str(step.get("fault"))
                self.stats["faults"][f] = self.stats["faults"].get(f, 0) + 1
            except Exception as e:
                out = "raised:" + type(e).__name__
                if self.seam.reached > n0 and step.get("mode") == "real":
                    self.stats["faults"]["real_solver_failed"] = self.stats["faults"].get("real_solver_failed", 0) + 1
                else:
                    self.tainted = True
            self.seam.next_fault = None
            self.seam.mode = "stub"
            return out
        if k == "to_function":
            return self.to_function(step)
        if k == "evaluate":
            return self.evaluate(step)
        # specification op
        try:
            a.apply(step)
        except KeyError:
            return "skipped"
        except Exception as e:
            self.tainted = True
            return "raised:" + type(e).__name__
        return "ok"

    # -- expressions of an actor for args / results
    def arg_expr(self, act, a):
        o = act.ocp
        k, n = a
        if k == "z":
            return "z"
        if k == "sample_xall":
            return o.sample(o.x, grid="control")[1]
        if k == "sample_uall":
            return o.sample(o.u, grid="control-")[1]
        s = act.syms[n]
        if k in ("value", "value_v"):
            return o.value(s)
        if k in ("sample_p", "sample_u", "sample_v"):
            return o.sample(s, grid="control-")[1]
        if k == "sample_x":
            return o.sample(s, grid="control")[1]
        if k == "sample_x-":
            return o.sample(s, grid="control-")[1]
        raise ValueError(a)

    def to_function(self, step):
        a = self.act
        if self.tainted:
            return "skipped"
        def exprs():
            args = [self.arg_expr(a, x) for x in step["args"]]
            res = []
            for rr in step["results"]:
                if rr[0] == "sample":
                    res.append(a.ocp.sample(a.syms[rr[1]], grid=rr[2])[1])
                elif rr[0] == "value":
                    res.append(a.ocp.value(a.syms[rr[1]]))
                else:
                    res.append(a.ocp.value(a.ocp.objective))
            return args, res

        f = None
        prev = self.funs.get(step["name"])
        if prev is not None and prev["step"]["args"] == step["args"] and prev["step"]["results"] == step["results"]:
            # a user who exports again usually still holds the sampled expressions from the first time
            try:
                args, res = prev["exprs"]
                f = a.ocp.to_function(step["name"], args, res, *step.get("labels", []))
                self.probe("to_function_again_same_expressions")
            except Exception:
                f = None  # they belong to an earlier transcription: sample again
        if f is None:
            try:
                args, res = exprs()
            except KeyError:
                return "skipped"
            try:
                f = a.ocp.to_function(step["name"], args, res, *step.get("labels", []))
                if step.get("labels"):
                    self.probe("to_function_with_labels")
            except Exception as e:
                raise Violation("to_function-raises", "to_function(%s, %s) raised %s: %s" % (step["args"], step["results"], type(e).__name__, str(e)[:300]))
        self.funs[step["name"]] = {"f": f, "spec": a.spec.clone(), "step": jcopy(step), "exprs": (args, res)}
        self.probe("to_function_taken")
        return "ok"

    def imperative(self, spec, fstep, vals, pre=False):
        """the stateful pipeline on a replica written afresh from `spec`"""
        rep = build(program(spec), "replica")
        if pre:
            # the user's OCP is transcribed when the values arrive (to_function itself transcribes it): a query does that
            rep.ocp.sample(rep.ocp.t, grid="control")
            self.probe("replica_transcribed_before_values")
        for a, v in zip(fstep["args"], vals):
            k, n = a
            if k == "value":
                rep.apply({"op": "set_value", "p": n, "v": v})
            elif k == "sample_p":
                rep.apply({"op": "set_value", "p": n, "v": {"as": "np", "v": v}})
            elif k == "value_v":
                rep.apply({"op": "set_initial", "x": n, "g": ["num", v]})
            elif k == "sample_x-":
                # N columns for the nodes 0..N-1; the final node keeps the guess it has (zero if never given):
                # the reference model says which
                from . import oracles

                tc, _ = oracles.times(spec)
                g = dict((x, gg) for x, gg in spec.initial).get(n)
                last = float(oracles.guess_matrix(g, 1, [tc[-1]], [spec.method["N"]])[0, 0])
                rep.apply({"op": "set_initial", "x": n, "g": ["arr", [list(v[0]) + [last]], "np"]})
            elif k == "z":
                # column k of the "z" argument is the guess of the algebraic variables on control interval k
                N = spec.method["N"]
                t0, T = float(spec.t0[1]), float(spec.T[1])
                for i, z in enumerate(spec.names("algebraic")):
                    rep.apply({"op": "set_initial", "x": z, "g": ["expr", ["pw", [float(x) for x in v[i][:N]], t0, T / N]]})
            elif k == "sample_xall":  # row i of the whole-vector argument is the guess of state i
                for i, x in enumerate(spec.names("state")):
                    rep.apply({"op": "set_initial", "x": x, "g": ["arr", [v[i]], "np"]})
            elif k == "sample_uall":
                for i, u in enumerate(spec.names("control")):
                    rep.apply({"op": "set_initial", "x": u, "g": ["arr", [v[i]], "np"]})
            else:
                rep.apply({"op": "set_initial", "x": n, "g": ["arr", v, "np"]})
        self.seam.mode = "real"
        self.seam.next_fault = None
        try:
            if spec.solver[0] == "sqpmethod":
                sol = rep.ocp.solve_limited()
            else:
                sol = rep.ocp.solve()
        finally:
            self.seam.mode = "stub"
        out = []
        for rr in fstep["results"]:
            if rr[0] == "sample":
                out.append(np.atleast_2d(np.array(sol.sample(rep.syms[rr[1]], grid=rr[2])[1], dtype=float)))
            elif rr[0] == "value":
                out.append(np.atleast_2d(np.array(sol.value(rep.syms[rr[1]]), dtype=float)))
            else:
                out.append(np.atleast_2d(np.array(sol.value(rep.ocp.objective), dtype=float)))
        return out

    def evaluate(self, step):
        ent = self.funs.get(step["name"])
        if ent is None or self.tainted:
            return "skipped"
        self.stats["checks"] += 1
        f, fstep = ent["f"], ent["step"]
        vals = step["vals"]
        try:
            got = f(*[ca.DM(np.array(v, dtype=float)) if not isinstance(v, (int, float)) else v for v in vals])
        except Exception as e:
            raise Violation("function-raises", "evaluating the function raised %s: %s" % (type(e).__name__, str(e)[:300]))
        if not isinstance(got, (list, tuple)):
            got = [got]
        got = [np.atleast_2d(np.array(ca.DM(g), dtype=float)) for g in got]
        if fstep.get("labels"):
            li, lo = fstep["labels"]
            try:
                byname = f.call(dict((n_, ca.DM(np.array(v, dtype=float)) if not isinstance(v, (int, float)) else ca.DM(v)) for n_, v in zip(li, vals)))
                got_named = [np.atleast_2d(np.array(ca.DM(byname[n_]), dtype=float)) for n_ in lo]
            except Exception as e:
                raise Violation("function-raises", "evaluating the function by labels raised %s: %s" % (type(e).__name__, str(e)[:300]))
            for g_pos, g_nam, n_ in zip(got, got_named, lo):
                if g_pos.shape != g_nam.shape or not np.allclose(g_pos, g_nam, rtol=0, atol=0, equal_nan=True):
                    raise Violation("to_function-labels", "output %s differs between positional and labelled evaluation" % n_)
        so = ent["spec"].solver
        tol_opt = so[1].get("ipopt.tol", so[1].get("ipopt", {}).get("tol", 0)) if so[0] == "ipopt" else 0
        mode = "map" if so[0] == "sqpmethod" else ("loose" if tol_opt >= 1e-3 else "conv")
        tol = {"map": 1e-9, "conv": 2e-5, "loose": 1e-6}[mode]
        variants = [("at-creation", ent["spec"])]
        if self.act.spec.to_json() != ent["spec"].to_json():
            variants.append(("at-evaluation", self.act.spec))
        errs = []
        for label, spec in variants:
            try:
                exp = self.imperative(spec, fstep, vals, pre=bool(step.get("pre")))
            except Exception as e:
                errs.append("%s: imperative pipeline raised %s: %s" % (label, type(e).__name__, str(e)[:200]))
                continue
            ok = True
            for g, e_ in zip(got, exp):
                g2 = g.reshape(e_.shape) if g.size == e_.size else g
                if g2.shape != e_.shape or not np.allclose(g2, e_, rtol=tol, atol=tol, equal_nan=True):
                    ok = False
                    errs.append("%s: function returns %s, imperative pipeline gives %s" % (label, np.round(g2, 7).tolist(), np.round(e_, 7).tolist()))
                    break
            if ok:
                self.stats["checks_equal"] += 1
                self.probe("equal_" + label)
                self.probe("mode_" + mode)
                return "ok"
        if all("imperative pipeline raised" in e for e in errs):
            raise Discard("replica does not solve: " + errs[0])
        raise Violation("to_function-differs", "; ".join(errs)[:600] + " [args %s mode %s method %s]" % (fstep["args"], mode, ent["spec"].method))


def gen_run(r, w, emit):
    ops, info = gen_convex(r)
    for op in ops:
        emit(op)
    N = info["N"]
    sp = w.act.spec
    nsteps = r.randint(0, 5)
    cfg = {"array_guess": True, "expr_guess": True}

    def history_step(exported=False):
        k = G.wpick(r, [(3, "set_value"), (3, "set_initial"), (2, "solve"), (1, "method"), (1, "solver"), (0 if exported else 1.5, "param_guess")])
        if k == "solver":
            # another solver (or other options) is declared; an export taken afterwards must embed it
            mode2 = G.pick(r, ["map", "conv", "loose"])
            emit({"op": "solver", "name": SOLVERS[mode2][0], "opts": jcopy(SOLVERS[mode2][1])})
            return
        if k == "param_guess":
            # a guess that mentions a parameter: it follows later values of that parameter
            x = G.pick(r, info["xs"] + info["us"])
            p = G.pick(r, info["ps"])
            # (such a parameter is never listed as a function argument: whether an unlisted guess "keeps its current
            #  value" or follows a new value of a listed parameter is not settled by the statement)
            info.setdefault("guess_params", set()).add(p)
            emit({"op": "set_initial", "x": x, "g": ["expr", ["*", ["s", p], G.gen_time_expr(r)]]})
            return
        if k == "set_value":
            p = G.pick(r, info["ps"] + info["pcs"])
            emit({"op": "set_value", "p": p, "v": G.gen_value(r, sp.sym(p), N)})
        elif k == "set_initial":
            tg = G.guess_targets(sp)
            t, s = G.pick(r, tg)
            emit({"op": "set_initial", "x": t, "g": G.gen_guess(r, t, s, N, cfg)})
        elif k == "solve":
            d = {"op": "solve", "how": G.pick(r, ["solve", "solve_limited"])}
            if r.random() < 0.3:
                d["fault"] = G.pick(r, ["fail_before", "fail_after", "interrupt"])
            elif r.random() < 0.6:
                d["mode"] = "real"  # the real solver runs (and, with ipopt, succeeds) before the function is exported
            emit(d)
        else:
            m = dict(sp.method)
            m["M"] = r.randint(1, 2)
            emit({"op": "method", "m": m})

    for i in range(nsteps):
        history_step()
    # placed histories: (a) a guess given before the first transcription and replaced after it; (b) a time-dependent
    # guess for a state (matters for the helper states of DirectCollocation / integrator nodes)
    if r.random() < 0.4:
        tg = G.guess_targets(sp)
        t, sd = G.pick(r, tg)
        emit({"op": "set_initial", "x": t, "g": G.gen_guess(r, t, sd, N, cfg)})
        d = {"op": "solve", "how": "solve"}
        if r.random() < 0.5:
            d["mode"] = "real"
        emit(d)
        emit({"op": "set_initial", "x": t, "g": G.gen_guess(r, t, sd, N, cfg)})
    if r.random() < 0.4:
        x = G.pick(r, info["xs"])
        emit({"op": "set_initial", "x": x, "g": ["expr", G.gen_time_expr(r)]})
    if info["vs"] and r.random() < 0.4:
        # a guess that builds on another guess (rockit evaluates guess expressions at the current starting point): the
        # global variable first, then a signal whose guess mentions it.  The variable is then never listed as an
        # argument (whether a dependent guess follows a listed one is not settled by the statement).
        v = info["vs"][0]
        emit({"op": "set_initial", "x": v, "g": ["num", G.rnum(r)]})
        x = G.pick(r, info["xs"] + info["us"])
        emit({"op": "set_initial", "x": x, "g": ["expr", ["*", ["s", v], ["+", ["c", 1.0], G.gen_time_expr(r)]]]})
        info["chain_deps"] = {v}
    info["guessed"] = set(x for x, g in sp.initial)
    args, res, vals = gen_to_function(r, info)
    tf = {"op": "to_function", "name": "F1", "args": args, "results": res}
    if r.random() < 0.4:
        # labels for inputs and outputs, deliberately not in alphabetical order
        li = ["in_%s%d" % (chr(ord("z") - i % 26), i) for i in range(len(args))]
        lo = ["out_%s%d" % (chr(ord("z") - i % 26), i) for i in range(len(res))]
        tf["labels"] = [li, lo]
    emit(tf)
    for i in range(r.randint(0, 3)):
        history_step(exported=True)
    emit({"op": "evaluate", "name": "F1", "vals": vals, "pre": r.random() < 0.5})
    if r.random() < 0.35:
        # the function is exported again (same name, same expressions) after unlisted values have changed
        for i in range(r.randint(1, 3)):
            history_step(exported=True)
        emit(dict(tf))
        emit({"op": "evaluate", "name": "F1", "vals": [gen_val(r, a, info) for a in args], "pre": r.random() < 0.5})
    if r.random() < 0.4:
        _, _, vals2 = gen_to_function(random.Random(r.randrange(1 << 30)), info)
        # same shapes as the first set: regenerate per arg
        vals2 = [gen_val(r, a, info) for a in args]
        emit({"op": "evaluate", "name": "F1", "vals": vals2, "pre": r.random() < 0.5})
    return info


def _finish(w, steps, result):
    result["log_digest"] = hashlib.sha256(json.dumps(w.log, sort_keys=True, default=str).encode()).hexdigest()[:16]
    result["steps"] = steps
    result["nsteps"] = len(steps)
    result["outcomes"] = [l[-1] for l in w.log if isinstance(l[0], int)]
    st = w.stats
    result["stats"] = {"faults": st["faults"], "probes": st["probes"], "ops": st["ops"], "checks": st["checks"], "checks_equal": st["checks_equal"],
                       "bit_equal": 0, "rejected_loudly": 0, "transitions": [], "handoffs": w.seam.reached}
    tf = [s for s in steps if s["op"] == "to_function"]
    key = [[s["op"] for s in steps], [[a[0] for a in t["args"]] for t in tf], [s.get("m", {}).get("cls") for s in steps if s["op"] == "method"],
           [s["name"] for s in steps if s["op"] == "solver"]]
    result["history_key"] = hashlib.sha256(json.dumps(key).encode()).hexdigest()[:16]
    result["nontrivial"] = st["checks_equal"] > 0
    return result


def run_seed(seed):
    r = random.Random(seed)
    probe_seed = r.randrange(1 << 30)
    w = World19(probe_seed)
    steps = []
    result = {"prop": "C19", "seed": seed, "probe_seed": probe_seed, "verdict": "ok"}

    def emit(op):
        steps.append(op)
        w.execute(len(steps) - 1, op)

    try:
        info = gen_run(r, w, emit)
        result["config"] = {k: v for k, v in info.items() if k in ("N", "cls", "mode")}
    except Violation as v:
        result["verdict"] = "violation"
        result["violation"] = {"class": v.cls, "detail": v.detail, "step": v.step}
    except Discard as d:
        result["verdict"] = "discard"
        result["detail"] = str(d)
    return _finish(w, steps, result)


def run_steps(steps, probe_seed):
    w = World19(probe_seed)
    result = {"prop": "C19", "probe_seed": probe_seed, "verdict": "ok"}
    try:
        for i, s in enumerate(steps):
            w.execute(i, s)
    except Violation as v:
        result["verdict"] = "violation"
        result["violation"] = {"class": v.cls, "detail": v.detail, "step": v.step}
    except Discard as d:
        result["verdict"] = "discard"
        result["detail"] = str(d)
    return _finish(w, steps, result)
