"""Seeded generators: well-posed base OCPs and history operations.

Everything is drawn from the `random.Random` handed in; generators look only at the reference
model (`Spec`), never at live CasADi objects, so one seed is one op list.
"""
import math

from .model import Spec, jcopy


def rnum(r, lo=-2.0, hi=2.0, nd=2):
    v = round(r.uniform(lo, hi), nd)
    return 0.5 if v == 0 else v


def pick(r, seq):
    return seq[r.randrange(len(seq))]


def wpick(r, table):
    """table: list of (weight, item)"""
    tot = sum(w for w, _ in table)
    x = r.uniform(0, tot)
    for w, it in table:
        x -= w
        if x <= 0:
            return it
    return table[-1][1]


# ----------------------------------------------------------------------------------------------
# expressions
# ----------------------------------------------------------------------------------------------
def atoms(spec, kinds, allow_t=True, node_only=False):
    """scalar atoms over symbols of the given kinds (node-only parameters only on request)"""
    out = []
    for s in spec.syms:
        if bool(s.get("node_only")) != node_only:
            continue
        tag = s["kind"] + (":" + s.get("grid", "") if s["kind"] in ("parameter", "variable") else "")
        if tag not in kinds and s["kind"] not in kinds:
            continue
        n = s.get("rows", 1) * s.get("cols", 1)
        if n == 1:
            out.append(["s", s["name"]])
        else:
            for k in range(n):
                out.append(["i", s["name"], k])
    if allow_t:
        out.append(["t"])
    return out


def gen_term(r, ats, depth=1):
    a = pick(r, ats)
    f = r.random()
    if f < 0.25:
        a = [pick(r, ["sin", "cos", "tanh", "sq"]), a]
    if depth > 0 and r.random() < 0.35:
        a = ["*", a, gen_term(r, ats, depth - 1)]
    return ["*", ["c", rnum(r)], a]


def gen_sum(r, ats, nterms=None):
    n = nterms or r.randint(1, 3)
    e = gen_term(r, ats)
    for _ in range(n - 1):
        e = ["+", e, gen_term(r, ats)]
    return e


SIGNAL_KINDS = ("state", "control", "algebraic", "parameter", "variable")


def gen_time_expr(r):
    """guess as a function of time only"""
    return gen_sum(r, [["t"], ["t"], ["c", 1.0]], r.randint(1, 2))


# ----------------------------------------------------------------------------------------------
# methods / solvers
# ----------------------------------------------------------------------------------------------
def gen_grid(r, cfg):
    g = wpick(r, [(5, "Uniform"), (2 if cfg.get("geometric", True) else 0, "Geometric"), (1 if cfg.get("freegrid", False) else 0, "Free"),
                  (cfg.get("w_dense_edges", 1.0), "DenseEdges")])
    d = {"cls": g}
    if g == "DenseEdges":
        d["multiplier"] = pick(r, [2, 5, 10])
        d["edge_frac"] = pick(r, [0.1, 0.2, 0.3])
        return d
    if g == "Geometric":
        d["growth"] = pick(r, [1.5, 2, 3])
        d["local"] = r.random() < 0.5
    if g != "Free" and cfg.get("localize", False) and r.random() < 0.2:
        d["localize_T"] = True
    if g != "Free" and cfg.get("localize", False) and r.random() < 0.15:
        d["localize_t0"] = True
    return d


def gen_method(r, cfg, spec=None, N=None):
    has_alg = bool(spec and spec.names("algebraic"))
    discrete = bool(spec and spec.nxt)
    pool = cfg.get("methods", ["SingleShooting", "MultipleShooting", "DirectCollocation"])
    if has_alg and not cfg.get("builtin_integrators", True):
        pool = [m for m in pool if m == "DirectCollocation"] or ["DirectCollocation"]
    if discrete:
        pool = [m for m in pool if m != "DirectCollocation"] or ["MultipleShooting"]
    cls = pick(r, pool)
    m = {"cls": cls, "N": N or r.randint(1, cfg.get("Nmax", 4)), "M": r.randint(1, cfg.get("Mmax", 2))}
    if cls == "DirectCollocation":
        m["degree"] = r.randint(1, cfg.get("degmax", 3))
        m["scheme"] = pick(r, ["radau", "legendre"])
    else:
        m["intg"] = pick(r, ["rk", "rk", "expl_euler"])
        if cfg.get("builtin_integrators", True) and not discrete and r.random() < 0.15:
            m["intg"] = pick(r, ["cvodes", "collocation", "idas"])
        if has_alg:
            m["intg"] = pick(r, ["collocation", "idas"])  # explicit schemes cannot carry algebraic variables
    if r.random() < cfg.get("p_grid", 0.5):
        m["grid"] = gen_grid(r, cfg)
    if r.random() < cfg.get("p_interior", 0.0):
        # a method that never evaluates the model at the right end of a control interval, on a grid with closed-form
        # node times: there a per-interval parameter can be compared with a piecewise constant function of time (C09)
        if cls == "DirectCollocation":
            m["scheme"] = "legendre"
        elif not has_alg:
            m["intg"] = "expl_euler"
        g = m.get("grid") or {}
        if g.get("cls") in ("Free", "DenseEdges") or g.get("localize_T") or g.get("localize_t0"):
            m.pop("grid")
    return m


def gen_solver(r, cfg):
    f = r.random()
    if f < 0.6:
        # (always an iteration cap: real solves of generated non-convex problems must stay bounded in steps --
        #  a wall-clock limit would make runs irreproducible)
        o = {"ipopt.print_level": 0, "print_time": False, "ipopt.max_iter": pick(r, [0, 1, 3, 10, 20, 40])}
        if r.random() < 0.3:
            o["ipopt.tol"] = pick(r, [1e-4, 1e-6, 1e-8])
        if r.random() < 0.2:
            o["expand"] = True
        return ["ipopt", o]
    o = {"print_time": False, "print_header": False, "print_iteration": False, "print_status": False,
         "qpsol": "qrqp", "qpsol_options": {"print_iter": False, "print_header": False, "print_info": False, "error_on_fail": False}}
    o["max_iter"] = pick(r, [0, 1, 2])
    # (the active-set QP solver is capped as well: on a degenerate QP its default of 1000 iterations took minutes)
    o["qpsol_options"]["max_iter"] = 60
    return ["sqpmethod", o]


# ----------------------------------------------------------------------------------------------
# values and guesses
# ----------------------------------------------------------------------------------------------
def gen_value(r, s, N):
    rows, cols = s.get("rows", 1), s.get("cols", 1)
    grid = s.get("grid", "")
    if grid == "":
        if rows * cols == 1:
            return rnum(r)
        return {"as": "np", "v": [[rnum(r) for _ in range(cols)] for _ in range(rows)]}
    ncol = N + (1 if s.get("include_last") else 0)
    if r.random() < 0.2 and rows == 1:
        return rnum(r)
    return {"as": pick(r, ["np", "dm"]), "v": [[rnum(r) for _ in range(ncol)] for _ in range(rows)]}


def node_times(sp):
    """control-node times when t0, T are plain numbers (else None); closed-form grids only"""
    from .oracles import norm_grid

    if sp.method is None or sp.T[0] != "num" or sp.t0[0] != "num":
        return None
    g = sp.method.get("grid") or {}
    if g.get("cls") == "DenseEdges":
        return None  # node times known to ~1e-6 only: not exact enough to write q(t_k) in as numbers
    if g.get("cls") == "Free" or g.get("localize_T") or g.get("localize_t0"):
        return None  # node times are decision variables there: samples at fixed times are not equivalent to q(ocp.t)
    n = norm_grid(sp.method.get("grid"), sp.method["N"])
    return [float(sp.t0[1]) + x * float(sp.T[1]) for x in n]


def node_only_value(r, sp, s):
    """values of a node-only parameter: samples of a seeded function of time at the nodes the columns belong to"""
    from . import expr as E

    N = sp.method["N"]
    tc = node_times(sp)
    ncol = N + 1 if s.get("include_last") else N
    if tc is None:
        return {"as": "np", "v": [[rnum(r) for _ in range(ncol)]]}
    fn = ["+", gen_time_expr(r), ["*", ["c", rnum(r)], ["t"]]]  # (always a genuine function of time)
    return {"as": pick(r, ["np", "dm"]), "v": [[round(E.evalnum(fn, t=tc[k]), 10) for k in range(ncol)]], "fn": fn}


def positive_value(r):
    return round(r.uniform(0.5, 3.0), 2)


def guess_targets(spec):
    """[(target, sym-or-None)] that may receive an initial guess"""
    out = []
    for s in spec.syms:
        if s.get("chain"):
            continue  # its guess is a link of a chain of guesses that build on each other: never replaced on its own
        if s["kind"] in ("state", "hstate", "control", "variable", "algebraic"):
            out.append((s["name"], s))
    if spec.T[0] == "free":
        out.append(("T", None))
    if spec.t0[0] == "free":
        out.append(("t0", None))
    return out


def gen_guess(r, target, s, N, cfg):
    """A guess of a form the C10 statement lists, with an unambiguous shape.  With the knob p_zero_guess (C10 only) a
    numeric guess is sometimes exactly zero everywhere: zero is also what a variable never given a guess starts from,
    so 'a zero guess replaces an earlier non-zero one' is a history of its own (no draw is made when the knob is off)."""
    g = _gen_guess(r, target, s, N, cfg)
    pz = cfg.get("p_zero_guess", 0)
    if pz and target != "T" and g[0] in ("num", "arr") and r.random() < pz:
        zero = lambda v: [zero(x) for x in v] if isinstance(v, list) else 0.0
        g = [g[0], zero(g[1])] + list(g[2:])
    return g


def _gen_guess(r, target, s, N, cfg):
    if s is None:  # T / t0
        return ["num", positive_value(r) if target == "T" else rnum(r, -1, 1)]
    rows = s.get("rows", 1) * s.get("cols", 1)
    kind = s["kind"]
    grid = s.get("grid", "")
    forms = [(3, "num")]
    if kind == "variable" and grid == "":
        forms = [(1, "num")]
        if rows > 1:
            forms.append((1, "vec"))
        elif r.random() < 0.3:
            return ["arr", [[rnum(r)]], pick(r, ["np", "dm"])]  # a 1-by-1 array for a scalar global variable
    else:
        if rows > 1:
            forms.append((1, "vec"))
        if cfg.get("array_guess", True) and kind != "algebraic":
            forms.append((2, "arr"))
        if cfg.get("expr_guess", True):
            forms.append((2, "expr"))
    f = wpick(r, forms)
    if f == "num":
        return ["num", rnum(r)]
    if f == "vec":
        return ["arr", [[rnum(r)] for _ in range(rows)], pick(r, ["np", "dm"])]
    if f == "expr":
        if rows > 1:
            return ["expr", ["vec"] + [gen_time_expr(r) for _ in range(rows)]]
        return ["expr", gen_time_expr(r)]
    # arr: states n x (N+1); controls / per-interval variables n x N; control+ variables n x (N+1)
    if kind in ("state", "hstate"):
        ncol = N + 1
    elif kind == "variable" and s.get("include_last"):
        ncol = N + 1
    else:
        ncol = N
    if ncol == rows:  # shape would be ambiguous with rows x 1 repeated
        return ["num", rnum(r)]
    as_ = pick(r, ["np", "dm"])
    if rows == 1 and as_ == "np" and r.random() < 0.5:
        return ["arr", [rnum(r) for _ in range(ncol)], "np"]  # 1-D numpy (auto-transposed)
    return ["arr", [[rnum(r) for _ in range(ncol)] for _ in range(rows)], as_]


def op_symbols(op):
    """names of the symbols an op needs to exist"""
    from . import expr as E

    names = set()
    if "expr" in op:
        E.symbols_of(op["expr"], names)
    k = op["op"]
    if k in ("set_der", "set_next"):
        names.add(op["state"])
    if k == "set_value":
        names.add(op["p"])
    if k == "set_value_cat":
        names.update(op["ps"])
    if k == "set_initial":
        if op["x"] not in ("T", "t0"):
            names.add(op["x"])
        if op["g"][0] == "expr":
            E.symbols_of(op["g"][1], names)
    if k == "set_T" and op["T"][0] == "par":
        names.add(op["T"][1])
    if k == "set_t0" and op["t0"][0] == "par":
        names.add(op["t0"][1])
    return set(n for n in names if not n.startswith("@") and not n.startswith("?"))


def shuffle_base(ops, r):
    """a random order of the same declarations in which every symbol is declared before it is used; the relative order
    of the symbol declarations themselves, of the constraints, of the objective terms and of the guesses is kept (it
    is part of the specification: it fixes the order of variables and rows), and the callback stays behind the method"""
    head, rest = ops[:1], list(ops[1:])
    chains = {"sym": "sym", "subject_to": "con", "clear_constraints": "con", "add_objective": "obj", "set_initial": "ini",
              "set_der": "dyn", "set_next": "dyn", "add_alg": "dyn", "method": "meth", "callback": "meth", "set_T": "hz", "set_t0": "hz"}
    out = list(head)
    declared = set()
    while rest:
        ready = []
        seen_chain = set()
        for i, op in enumerate(rest):
            ch = chains.get(op["op"], op["op"] + str(op.get("p", "")))
            first_of_chain = ch not in seen_chain
            seen_chain.add(ch)
            if first_of_chain and op_symbols(op) <= declared:
                ready.append(i)
        i = ready[r.randrange(len(ready))] if ready else 0
        op = rest.pop(i)
        if op["op"] == "sym":
            declared.add(op["name"])
        out.append(op)
    return out


# ----------------------------------------------------------------------------------------------
# base OCP
# ----------------------------------------------------------------------------------------------
def gen_base(r, cfg):
    """-> op list of a well-posed OCP (declarations, model, constraints, objective, method, solver,
    values, optional guesses)."""
    sp = Spec()
    ops = []

    def emit(op):
        ops.append(op)
        sp.apply(op)

    N = r.randint(1, cfg.get("Nmax", 4))
    # horizon
    Tk = wpick(r, [(5, "num"), (cfg.get("w_freeT", 2), "free"), (cfg.get("w_parT", 1), "par")])
    t0k = wpick(r, [(6, "num"), (cfg.get("w_freet0", 0.7), "free")])
    new = {"op": "new_ocp"}
    if Tk == "num":
        new["T"] = ["num", positive_value(r)]
    elif Tk == "free":
        new["T"] = ["free", positive_value(r)]
    if t0k == "num":
        new["t0"] = ["num", pick(r, [0, 0, rnum(r, -1, 1)])]
    else:
        new["t0"] = ["free", rnum(r, -1, 1)]
    emit(new)

    def scale(p=0.25):
        return pick(r, [2, 10, 0.5]) if (cfg.get("scales", True) and r.random() < p) else 1

    nx = r.randint(1, cfg.get("nx_max", 3))
    nu = r.randint(0, cfg.get("nu_max", 2))
    cnt = {"x": 0, "u": 0, "p": 0, "v": 0, "z": 0}

    def decl(kind, **kw):
        pre = {"state": "x", "control": "u", "parameter": "p", "variable": "v", "algebraic": "z"}[kind]
        cnt[pre] += 1
        d = {"op": "sym", "name": "%s%d" % (pre, cnt[pre]), "kind": kind}
        d.update(kw)
        emit(d)
        return d["name"]

    for i in range(nx):
        rows = 2 if (cfg.get("vector_states", True) and r.random() < 0.2) else 1
        decl("state", rows=rows, scale=scale())
    for i in range(nu):
        decl("control", scale=scale(0.15), rows=2 if (cfg.get("vector_controls", True) and r.random() < 0.12) else 1)
    quads = []
    if cfg.get("quad_states", True) and r.random() < 0.2:
        cnt["q"] = cnt.get("q", 0) + 1
        emit({"op": "sym", "name": "q1", "kind": "qstate"})
        quads.append("q1")
    # parameters
    pk = cfg.get("param_kinds", [(3, "g"), (1, "gv"), (1, "gm"), (2, "c"), (2, "c+")])
    for i in range(r.randint(cfg.get("np_min", 0), cfg.get("np_max", 3))):
        k = wpick(r, pk)
        if k == "g":
            decl("parameter")
        elif k == "gv":
            decl("parameter", rows=2)
        elif k == "gm":
            decl("parameter", rows=2, cols=2)
        elif k == "c":
            decl("parameter", grid="control", rows=pick(r, [1, 1, 2]))
        else:
            decl("parameter", grid="control", include_last=True)
    if Tk == "par":
        pT = decl("parameter")
        emit({"op": "set_T", "T": ["par", pT]})
    # a per-interval parameter that is only ever evaluated at control nodes (path constraints on the control grid,
    # sums, next()): with values sampled from a function q(t) it is equivalent to writing q(ocp.t) in its place
    if cfg.get("node_only_params", True) and r.random() < cfg.get("p_node_only", 0.35):
        # (with include_last, so that it has a value at every node incl. the final one: a plain per-interval
        #  parameter has none there and rockit falls back to the last interval's column)
        decl("parameter", grid="control", include_last=True, node_only=True)
    # variables
    for i in range(r.randint(0, cfg.get("nv_max", 2))):
        k = wpick(r, [(2, "g"), (1, "c"), (1, "c+")])
        if k == "g":
            decl("variable", scale=scale(0.15))
        elif k == "c":
            decl("variable", grid="control", scale=scale(0.15))
        else:
            decl("variable", grid="control", include_last=True)
    method = gen_method(r, cfg, N=N)
    cfg = dict(cfg, _cls_hint=method["cls"])
    if cfg.get("dae", True) and (method["cls"] == "DirectCollocation" or method.get("intg") in ("collocation", "idas")) and r.random() < 0.3:
        decl("algebraic")

    # dynamics
    discrete = cfg.get("discrete", True) and method["cls"] != "DirectCollocation" and method.get("intg") in (None, "rk", "expl_euler") \
        and not sp.names("algebraic") and r.random() < 0.12
    if cfg.get("higher_order_controls", True) and not discrete and r.random() < 0.12:
        emit({"op": "sym", "name": "h1", "kind": "hstate"})  # ocp.control(order=1): piecewise linear, a state with a hidden rate control
    sig = atoms(sp, ("state", "hstate", "control", "algebraic", "parameter", "variable"), allow_t=cfg.get("time_in_ode", True) and not discrete)
    for s in sp.names("state"):
        rows = sp.sym(s).get("rows", 1)
        e = gen_sum(r, sig) if rows == 1 else ["vec"] + [gen_sum(r, sig) for _ in range(rows)]
        # matrix-valued parameters keep their element layout: use P @ x for a 2-vector state
        gm = [q for q in sp.names("parameter") if sp.sym(q).get("cols", 1) == 2]
        if rows == 2 and gm and r.random() < 0.8:
            e = ["+", ["mtimes", ["s", gm[0]], ["s", s]], e]
        if discrete:
            emit({"op": "set_next", "state": s, "expr": e})
        else:
            emit({"op": "set_der", "state": s, "expr": e, "scale": scale(0.1)})
    for q in quads:  # explicitly declared quadrature state: running cost, used through at_tf
        if not discrete:
            emit({"op": "set_der", "state": q, "expr": ["sq", gen_sum(r, sig, 1)]})
        else:
            emit({"op": "set_next", "state": q, "expr": ["sq", gen_sum(r, sig, 1)]})  # (rockit accumulates the increments)
    for z in sp.names("algebraic"):
        x_at = atoms(sp, ("state",), allow_t=False)
        emit({"op": "add_alg", "expr": ["-", ["s", z], gen_sum(r, x_at, 1)]})

    # constraints
    for op in gen_constraints(r, sp, cfg, r.randint(1, 4), first=True):
        emit(op)
    # objective
    for op in gen_objectives(r, sp, cfg, r.randint(1, 3)):
        emit(op)
    emit({"op": "method", "m": method})
    sv = gen_solver(r, cfg)
    emit({"op": "solver", "name": sv[0], "opts": sv[1], "reuse": r.random() < 0.5})
    # values
    for p in sp.names("parameter"):
        s = sp.sym(p)
        v = positive_value(r) if (sp.T == ["par", p]) else gen_value(r, s, N)
        if s.get("node_only"):
            v = node_only_value(r, sp, s)
        emit({"op": "set_value", "p": p, "v": v})
    # guesses
    gp = [q for q in sp.names("parameter") if sp.sym(q).get("grid", "") == "" and sp.sym(q).get("rows", 1) * sp.sym(q).get("cols", 1) == 1]
    for tg, s in guess_targets(sp):
        if r.random() < cfg.get("p_base_guess", 0.3):
            g = gen_guess(r, tg, s, N, cfg)
            if gp and s is not None and s["kind"] in ("state", "control") and s.get("rows", 1) * s.get("cols", 1) == 1 and r.random() < cfg.get("p_param_guess", 0.2):
                g = ["expr", ["*", ["s", pick(r, gp)], gen_time_expr(r)]]  # a guess that mentions a parameter
            emit({"op": "set_initial", "x": tg, "g": g})
    return ops, sp


def gen_constraints(r, sp, cfg, n, first=False):
    out = []
    states = atoms(sp, ("state",), allow_t=False)
    ctrls = atoms(sp, ("control", "hstate"), allow_t=False)
    gpar = [["s", p] for p in sp.names("parameter") if sp.sym(p).get("grid", "") == "" and sp.sym(p).get("rows", 1) * sp.sym(p).get("cols", 1) == 1 and sp.T != ["par", p]]
    cpar = atoms(sp, ("parameter:control",), allow_t=False)
    gvar = [["s", v] for v in sp.names("variable") if sp.sym(v).get("grid", "") == ""]
    cvar = atoms(sp, ("variable:control",), allow_t=False)
    npar = atoms(sp, ("parameter:control",), allow_t=False, node_only=True)
    for i in range(n):
        kinds = [(3, "bnd0"), (2, "bndf"), (2, "pathx")]
        if cfg.get("offsets", True):
            kinds.append((1.2, "rate"))
        if npar:
            kinds.append((3, "nodep"))
        if ctrls:
            kinds.append((3, "boxu"))
        if gvar:
            kinds.append((1, "gvar"))
        if cvar:
            kinds.append((1, "cvar"))
        if cpar:
            kinds.append((3, "pathp"))
        k = "bnd0" if (first and i == 0) else wpick(r, kinds)
        rhs = pick(r, gpar) if (gpar and r.random() < 0.4) else ["c", rnum(r)]
        d = {"op": "subject_to"}
        if k == "bnd0":
            d["expr"] = ["==", ["at_t0", pick(r, states)], rhs]
        elif k == "bndf":
            d["expr"] = [pick(r, ["<=", "==", ">="]), ["at_tf", pick(r, states)], rhs]
        elif k == "pathx":
            e = pick(r, states)
            if r.random() < 0.3:
                e = ["+", e, ["*", ["c", rnum(r)], ["t"]]]
            d["expr"] = [pick(r, ["<=", ">="]), e, rhs]
        elif k == "boxu":
            lo = rnum(r, -3, -0.5)
            d["expr"] = ["box", ["c", lo], pick(r, ctrls), ["c", round(lo + r.uniform(1, 4), 2)]]
        elif k == "gvar":
            d["expr"] = [">=", pick(r, gvar), ["c", rnum(r, -2, 0)]]
        elif k == "cvar":
            d["expr"] = ["<=", pick(r, cvar), pick(r, states) if r.random() < 0.5 else ["c", rnum(r)]]
        elif k == "pathp":
            d["expr"] = ["<=", pick(r, states), ["+", pick(r, cpar), ["c", 3.0]]]
        elif k == "rate":  # bound on the change over one control interval
            e = pick(r, ctrls) if (ctrls and r.random() < 0.6) else pick(r, states)
            d["expr"] = ["box", ["c", rnum(r, -3, -0.5)], ["-", [pick(r, ["next", "next", "prev"]), e], e], ["c", rnum(r, 0.5, 3)]]
        elif k == "nodep":  # tracking-type constraint against a reference given per node
            q = pick(r, npar)
            q = wpick(r, [(3, q), (2, ["next", q]), (1, ["prev", q])])
            d["expr"] = ["<=", pick(r, states), ["+", q, ["c", 3.0]]]
        if k in ("pathx", "boxu", "cvar", "pathp", "rate", "nodep"):
            if r.random() < 0.3:
                d["include_first"] = False
            if r.random() < 0.3:
                d["include_last"] = False
            elif r.random() < 0.35:
                d["include_last"] = "auto"  # documented third value; what it means is up to rockit, but it must mean the
                #                             same for a parameter and for the number written in its place
            dc = (sp.method or {}).get("cls", cfg.get("_cls_hint")) == "DirectCollocation"
            if k in ("pathx", "pathp") and r.random() < (0.5 if dc else 0.3):
                d["grid"] = pick(r, ["integrator", "control", "integrator_roots"] + (["integrator_roots"] * 2 if dc else []))
                if d["grid"] == "integrator_roots":
                    d.pop("include_first", None)
                    d.pop("include_last", None)
        if cfg.get("scales", True) and r.random() < 0.15:
            d["scale"] = pick(r, [2, 10, 0.5])
        out.append(d)
    return out


def gen_objectives(r, sp, cfg, n):
    out = []
    sig = atoms(sp, ("state", "hstate", "control", "variable:control", "parameter:control"), allow_t=True)
    sigs = atoms(sp, ("state",), allow_t=False)
    gvar = [["s", v] for v in sp.names("variable") if sp.sym(v).get("grid", "") == ""]
    npar = atoms(sp, ("parameter:control",), allow_t=False, node_only=True)
    for i in range(n):
        kinds = [(3, "int"), (2, "tf"), (1, "sum")]
        qs = sp.names("qstate")
        if qs:
            kinds.append((3, "quad"))
        if npar:
            kinds.append((2, "track"))
        if sp.nxt:  # discrete-time model: no integrals
            kinds = [(2, "tf"), (3, "sum")]
        if sp.T[0] == "free":
            kinds.append((2, "T"))
        if gvar:
            kinds.append((1, "gv"))
        if sp.t0[0] == "free":
            kinds.append((1, "t0"))
        k = wpick(r, kinds)
        if k == "int":
            # (integral(expr, grid='control') is not generated: with Geometric / DenseEdges grids rockit's own time vector
            #  is a row and the sum raises a dimension mismatch for the evolved and the fresh OCP alike -- C05 territory)
            e = ["int", ["sq", gen_sum(r, sig, r.randint(1, 2))]]
        elif k == "tf":
            e = ["at_tf", ["sq", pick(r, sigs)]]
        elif k == "sum":
            e = [pick(r, ["sum", "sum+"]) if not atoms(sp, ("control",), False) else "sum", ["sq", pick(r, sig)]]
        elif k == "quad":
            e = ["at_tf", ["s", pick(r, qs)]]
        elif k == "track":  # sum over the control grid of a tracking error against a per-node reference
            q = pick(r, npar)
            e = ["sum", ["sq", ["-", pick(r, sigs), q]]]
        elif k == "T":
            e = ["*", ["c", abs(rnum(r))], ["T"]]
        elif k == "t0":
            e = ["sq", ["t0"]]
        else:
            e = ["sq", pick(r, gvar)]
        out.append({"op": "add_objective", "expr": e})
    return out
