"""Minimisation of a failing history (own ddmin; every subsequence is a valid history because a
step whose symbols no longer exist is skipped)."""
import json

from . import expr as E
from . import runner


def _same(res, cls):
    return res.get("verdict") == "violation" and res["violation"]["class"] == cls


def minimize(replay_fn, steps, cls, max_runs=300, wall=60.0, workers=16):
    """replay_fn(steps) -> result dict (executed in a forked child). Returns (steps, runs)."""
    runs = [0]

    def test_many(cands):
        """-> index of first candidate that still fails the same way, or None"""
        if not cands:
            return None
        out = runner.run_parallel(replay_fn, cands, workers=workers, wall=wall)
        runs[0] += len(cands)
        ok = {}
        for arg, o in out:
            ok[json.dumps(arg, sort_keys=True)] = o.get("ok") and _same(o["res"], cls)
        for i, c in enumerate(cands):
            if ok.get(json.dumps(c, sort_keys=True)):
                return i
        return None

    cur = list(steps)
    # 0. drop the steps the executor skipped anyway (dangling symbols)
    out = runner.run_parallel(replay_fn, [cur], workers=1, wall=wall)
    runs[0] += 1
    if out and out[0][1].get("ok") and _same(out[0][1]["res"], cls):
        oc = out[0][1]["res"].get("outcomes", [])
        c2 = [s for s, o in zip(cur, oc + ["?"] * len(cur)) if o != "skipped"]
        if len(c2) < len(cur) and test_many([c2]) is not None:
            cur = c2
    # 1. ddmin on steps
    n = 2
    while len(cur) >= 2 and runs[0] < max_runs:
        chunk = max(1, len(cur) // n)
        cands = []
        for i in range(0, len(cur), chunk):
            c = cur[:i] + cur[i + chunk:]
            if c:
                cands.append(c)
        hit = test_many(cands)
        if hit is not None:
            cur = cands[hit]
            n = max(n - 1, 2)
        else:
            if chunk == 1:
                break
            n = min(len(cur), n * 2)
    # 2. shrink arguments
    changed = True
    while changed and runs[0] < max_runs:
        changed = False
        cands = []
        for i, s in enumerate(cur):
            for s2 in simpler(s):
                cands.append(cur[:i] + [s2] + cur[i + 1:])
        # test in batches, accept the first hit, restart
        for b in range(0, len(cands), 32):
            hit = test_many(cands[b:b + 32])
            if hit is not None:
                cur = cands[b + hit]
                changed = True
                break
            if runs[0] >= max_runs:
                break
    return cur, runs[0]


def simpler(step):
    """simpler variants of one step"""
    out = []
    k = step["op"]

    def var(**kw):
        s = json.loads(json.dumps(step))
        for kk, vv in kw.items():
            if vv is _DEL:
                s.pop(kk, None)
            else:
                s[kk] = vv
        if s != step:
            out.append(s)

    if k == "method":
        m = step["m"]
        for key, val in (("M", 1), ("N", 1), ("N", 2), ("degree", 1)):
            if key in m and m[key] != val and (key != "N"):
                m2 = dict(m)
                m2[key] = val
                var(m=m2)
        if "grid" in m:
            m2 = dict(m)
            m2.pop("grid")
            var(m=m2)
        if m.get("intg") not in (None, "rk"):
            m2 = dict(m)
            m2["intg"] = "rk"
            var(m=m2)
    if "expr" in step:
        for e in sub_exprs(step["expr"]):
            var(expr=e)
    if k == "sym" and step.get("scale", 1) != 1:
        var(scale=1)
    if k in ("set_der", "subject_to") and step.get("scale", 1) != 1:
        var(scale=1)
    if k == "subject_to":
        for key in ("include_first", "include_last", "grid"):
            if key in step:
                var(**{key: _DEL})
    if k == "solver" and step.get("opts") and step.get("name") == "ipopt":
        # keep an iteration cap: real solves must stay bounded
        var(opts={"ipopt.print_level": 0, "print_time": False, "ipopt.max_iter": min(3, step["opts"].get("ipopt.max_iter", 3))})
    if k == "solve":
        if step.get("mode") == "real":
            var(mode=_DEL)
        if step.get("how") != "solve":
            var(how="solve")
        if step.get("point") not in (None, "x0"):
            var(point=_DEL)
    if k == "set_initial" and step["g"][0] != "num":
        var(g=["num", 1.5])
    if k == "set_value" and not isinstance(step["v"], (int, float)):
        var(v=1.5)
    if k == "new_ocp":
        if step.get("T", ["num", 1])[0] == "free":
            var(T=["num", step["T"][1]])
        if step.get("t0", ["num", 0]) != ["num", 0]:
            var(t0=["num", 0])
    return out


class _Del:
    pass


_DEL = _Del()


def sub_exprs(ast):
    """smaller expressions of the same role (keep the comparison / placeholder skeleton)"""
    out = []
    k = ast[0]
    if k in ("<=", ">=", "=="):
        for e in sub_exprs(ast[1]):
            out.append([k, e, ast[2]])
        for e in sub_exprs(ast[2]):
            out.append([k, ast[1], e])
    elif k == "box":
        for e in sub_exprs(ast[2]):
            out.append([k, ast[1], e, ast[3]])
    elif k in ("at_t0", "at_tf", "int", "sum", "sum+", "intc", "sq", "sin", "cos", "tanh", "neg"):
        if k in ("sq", "sin", "cos", "tanh", "neg"):
            out.append(ast[1])
        for e in sub_exprs(ast[1]):
            out.append([k, e])
    elif k in ("+", "-", "*"):
        out.append(ast[1])
        out.append(ast[2])
    elif k == "vec":
        for i in range(1, len(ast)):
            for e in sub_exprs(ast[i]):
                out.append(ast[:i] + [e] + ast[i + 1:])
    return out
