"""Fork-per-run parallel execution.

The parent imports casadi + rockit once and executes no rockit operation; every run is a child
forked from that pristine parent, so process-global state (class patches of the pickle context,
DM.set_precision, Opti counters, caches) never leaks from one seed to the next.
A child that exceeds its wall budget is killed and reported as a harness error -- never as ok.
"""
import json
import os
import select
import signal
import sys
import time
import traceback


def _child(fn, arg, wfd, wall):
    try:
        import faulthandler

        faulthandler.dump_traceback_later(wall + 5, exit=True)
        res = fn(arg)
        payload = json.dumps({"ok": True, "res": res}, default=str)
    except BaseException as e:  # harness error, reported as such
        payload = json.dumps({"ok": False, "err": "%s: %s" % (type(e).__name__, e), "tb": traceback.format_exc()[-4000:]})
    try:
        with os.fdopen(wfd, "w") as f:
            f.write(payload)
    finally:
        os._exit(0)


def run_parallel(fn, args, workers=16, wall=60.0, budget_s=None, on_result=None):
    """Run fn(arg) for every arg, each in a freshly forked child. Yields nothing; returns list of
    (arg, outcome) in completion order; outcome = {"ok":True,"res":..} | {"ok":False,"err":..}.
    Stops launching new children when budget_s is exhausted."""
    t_start = time.time()
    pending = list(args)
    pending.reverse()
    running = {}  # rfd -> (pid, arg, t0, buf)
    results = []
    sys.stdout.flush()
    sys.stderr.flush()
    while pending or running:
        while pending and len(running) < workers:
            if budget_s is not None and time.time() - t_start > budget_s:
                pending = []
                break
            arg = pending.pop()
            rfd, wfd = os.pipe()
            pid = os.fork()
            if pid == 0:
                os.close(rfd)
                for fd in list(running.keys()):
                    try:
                        os.close(fd)
                    except OSError:
                        pass
                _child(fn, arg, wfd, wall)
            os.close(wfd)
            running[rfd] = [pid, arg, time.time(), b""]
        if not running:
            break
        ready, _, _ = select.select(list(running.keys()), [], [], 0.2)
        now = time.time()
        for rfd in ready:
            chunk = os.read(rfd, 1 << 16)
            ent = running[rfd]
            if chunk:
                ent[3] += chunk
                continue
            os.close(rfd)
            pid, arg, t0, buf = running.pop(rfd)
            try:
                os.waitpid(pid, 0)
            except ChildProcessError:
                pass
            try:
                out = json.loads(buf.decode()) if buf else {"ok": False, "err": "child died without a result"}
            except Exception as e:
                out = {"ok": False, "err": "unparsable child output: %s" % e}
            out["wall"] = now - t0
            results.append((arg, out))
            if on_result:
                on_result(arg, out)
        for rfd in list(running.keys()):
            pid, arg, t0, buf = running[rfd]
            if now - t0 > wall:
                try:
                    os.kill(pid, signal.SIGKILL)
                except ProcessLookupError:
                    pass
                try:
                    os.waitpid(pid, 0)
                except ChildProcessError:
                    pass
                os.close(rfd)
                running.pop(rfd)
                out = {"ok": False, "err": "wall timeout after %.0fs" % wall, "timeout": True, "wall": now - t0}
                results.append((arg, out))
                if on_result:
                    on_result(arg, out)
    return results


def run_one(fn, arg, wall=120.0):
    r = run_parallel(fn, [arg], workers=1, wall=wall)
    return r[0][1]
