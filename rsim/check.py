"""Check driver: seeded search over histories and faults, minimisation, replay, evidence.

usage: check.py <PROPERTY> <quick|thorough> [--seeds N] [--budget SECONDS]
       check.py --replay <file>
       check.py --digests <PROPERTY> <seed> <seed> ...      (internal: determinism self-test)
exit 0: property held on everything explored (KNOWN-FINDING lines allowed)
exit 1: VIOLATION property=<id> replay=<path>
exit 2: harness error (never to be read as a verdict)
"""
import collections
import hashlib
import json
import os
import subprocess
import sys
import time

HERE = os.path.dirname(os.path.abspath(__file__))
ROOT = os.path.dirname(HERE)

LEVEL = {"C09": "exploration", "C10": "exploration", "C12": "exploration", "C13": "exploration", "C18": "exploration",
         "C19": "exploration", "C20": "fault_enumeration"}

TIERS = {
    "quick": {"budget": 100, "selftest": 8, "max_min": 4, "wall": 60},
    "thorough": {"budget": 900, "selftest": 48, "max_min": 12, "wall": 90},
}


def engine_for(prop):
    if prop == "C18":
        # every fourth seed is a multi-stage run (templates, clones, parent coupling) with save/load restarts
        from . import c12, hist, props

        def run_seed18(seed):
            if seed % 4 == 3:
                return c12.run_seed(seed, restarts=True)
            return hist.run_seed(prop, seed, props.base_cfg(prop))

        def run_steps18(steps, probe_seed):
            if any(s["op"] in ("stage", "template", "clone") for s in steps):
                return c12.run_steps(steps, probe_seed)
            return hist.run_steps(prop, steps, probe_seed, props.base_cfg(prop))

        return run_seed18, run_steps18
    if prop in ("C09", "C10", "C13"):
        from . import hist, props

        return (lambda seed: hist.run_seed(prop, seed, props.base_cfg(prop)),
                lambda steps, probe_seed: hist.run_steps(prop, steps, probe_seed, props.base_cfg(prop)))
    if prop == "C12":
        from . import c12

        return c12.run_seed, c12.run_steps
    if prop == "C19":
        from . import c19

        return c19.run_seed, c19.run_steps
    if prop == "C20":
        from . import c20

        return c20.run_seed, c20.run_steps
    raise SystemExit("unknown property %s" % prop)


def load_known():
    p = os.path.join(ROOT, "known_findings.json")
    if not os.path.exists(p):
        return {"findings": [], "fixed": []}
    return json.load(open(p))


def pred_holds(pred, steps, vio):
    """predicates over a minimised history"""
    kind, _, val = pred.partition(":")
    first_tr = None
    for i, s in enumerate(steps):
        if s["op"] in ("solve", "check", "query", "to_function"):
            first_tr = i
            break
    if kind == "op":
        return any(s["op"] == val for s in steps)
    if kind == "post":  # op occurs after the first transcription-forcing step
        return first_tr is not None and any(s["op"] == val for s in steps[first_tr + 1:])
    if kind == "pre":
        return any(s["op"] == val for s in (steps if first_tr is None else steps[:first_tr]))
    if kind == "method":
        return any(s["op"] == "method" and s["m"]["cls"] == val for s in steps)
    if kind == "guess":
        return any(s["op"] == "set_initial" and s["g"][0] == val for s in steps)
    if kind == "guess_target":
        return any(s["op"] == "set_initial" and s["x"] == val for s in steps)
    if kind == "T":
        return any((s["op"] == "new_ocp" and s.get("T", ["num"])[0] == val) or (s["op"] == "set_T" and s["T"][0] == val) for s in steps)
    if kind == "t0":
        return any((s["op"] == "new_ocp" and s.get("t0", ["num"])[0] == val) or (s["op"] == "set_t0" and s["t0"][0] == val) for s in steps)
    if kind == "detail":
        return val in vio.get("detail", "")
    if kind == "feature":
        return any(val in json.dumps(s) for s in steps)
    raise ValueError("unknown predicate " + pred)


def match_known(known, prop, steps, vio):
    for e in known.get("findings", []):
        if e["property"] != prop:
            continue
        if not vio["class"].startswith(e["class"]):
            continue
        if all(pred_holds(p, steps, vio) for p in e.get("requires", [])):
            return e
    return None


def derive_seeds(base, n):
    return [base * 1000003 + i for i in range(n)]


def main(argv):
    sys.path.insert(0, os.environ.get("RSIM_REPO", "/repo"))
    if argv and argv[0] == "--replay":
        return replay_main(argv[1])
    if argv and argv[0] == "--digests":
        return digests_main(argv[1], [int(x) for x in argv[2:]])
    prop, tier = argv[0], argv[1]
    os.environ["RSIM_TIER"] = tier
    opts = dict(TIERS[tier])
    if prop == "C20":
        opts["wall"] = 240
        opts["selftest"] = 3 if tier == "quick" else 12
        # (a unit is a complete fault matrix of ~420 cases: the quick tier should get through the first 48 units, i.e.
        #  8 base OCPs x 3 methods x 2 placements, so that every parity-driven placement variant occurs a few times)
        opts["budget"] = 170 if tier == "quick" else 1200
    i = 2
    nseeds = None
    while i < len(argv):
        if argv[i] == "--seeds":
            nseeds = int(argv[i + 1])
        if argv[i] == "--budget":
            opts["budget"] = float(argv[i + 1])
        i += 2
    base = int(os.environ.get("VERIF_SEED", "0") or 0)
    workers = int(os.environ.get("VERIF_WORKERS", "16"))
    t0 = time.time()

    import casadi  # noqa: F401  (pristine parent: import only)
    import rockit  # noqa: F401
    from . import minimize, runner

    run_seed, run_steps = engine_for(prop)
    harness_errors = []

    # ---- 1. determinism self-test: same seed twice, other worker count, other PYTHONHASHSEED
    st_seeds = derive_seeds(base + 7919, opts["selftest"])
    d1 = digests(runner, run_seed, st_seeds, workers, opts["wall"], harness_errors)
    d2 = digests(runner, run_seed, st_seeds, max(2, workers // 4), opts["wall"], harness_errors)
    env = dict(os.environ, PYTHONHASHSEED="4242", VERIF_WORKERS=str(max(2, workers // 2)))
    p = subprocess.run([sys.executable, os.path.join(HERE, "main.py"), "--digests", prop] + [str(s) for s in st_seeds],
                       env=env, capture_output=True, text=True, timeout=opts["wall"] * 6)
    try:
        d3 = {int(k): v for k, v in json.loads(p.stdout.strip().splitlines()[-1]).items()}
    except Exception:
        d3 = None
        harness_errors.append("determinism subprocess failed: %s %s" % (p.stdout[-300:], p.stderr[-300:]))
    nondet = [s for s in st_seeds if not (d1.get(s) == d2.get(s) and (d3 is None or d1.get(s) == d3.get(s))) or d1.get(s) is None]
    if nondet:
        print("HARNESS-ERROR: non-deterministic replay for seeds %s" % nondet[:5])
        write_evidence(prop, tier, base, {"evaluations": len(st_seeds), "distinct_nontrivial": 0, "rule": "determinism self-test failed",
                                          "samples": [{"nondeterministic_seeds": nondet[:5]}]}, time.time() - t0, 0, ["determinism self-test FAILED"])
        return 2

    # ---- 1b. regression: replay files of repaired findings must pass on the current tree
    # (findings/ = histories that exposed a genuine, now repaired defect; regress/ = histories on which an
    #  earlier version of a check raised a false alarm)
    regress = []
    for d in ("findings", "regress"):
        if os.path.isdir(os.path.join(ROOT, d)):
            regress += sorted(os.path.join(d, f) for f in os.listdir(os.path.join(ROOT, d)) if f.startswith(prop + "_") and f.endswith(".json"))
    regress_failed = []
    for f in regress:
        doc = json.load(open(os.path.join(ROOT, f)))
        o = runner.run_one(lambda steps, _p=doc["probe_seed"]: run_steps(steps, _p), doc["steps"], wall=opts["wall"] * 2)
        if not o.get("ok"):
            harness_errors.append("regression %s: %s" % (f, o.get("err")))
        elif o["res"]["verdict"] == "violation":
            regress_failed.append((f, o["res"]["violation"]))

    # ---- 2. the seeded search
    results = {}
    budget = opts["budget"]
    t_search = time.time()
    batch = 0
    n_total = nseeds
    cursor = 0
    while True:
        if n_total is not None:
            todo = derive_seeds(base, n_total)[cursor:]
            if not todo:
                break
        else:
            if time.time() - t_search > budget:
                break
            todo = derive_seeds(base, cursor + workers * 8)[cursor:]
        left = max(5.0, budget - (time.time() - t_search)) if n_total is None else None
        out = runner.run_parallel(run_seed, todo, workers=workers, wall=opts["wall"], budget_s=left)
        for seed, o in out:
            results[seed] = o
        cursor += len(todo)
        if n_total is not None:
            break
    # retry harness failures once, serially, with a longer wall
    for seed, o in list(results.items()):
        if not o.get("ok"):
            o2 = runner.run_one(run_seed, seed, wall=opts["wall"] * 3)
            results[seed] = o2
            if not o2.get("ok"):
                harness_errors.append("seed %d: %s" % (seed, o2.get("err")))

    # ---- 3. classify
    good = {s: o["res"] for s, o in results.items() if o.get("ok")}
    verdicts = collections.Counter(r["verdict"] for r in good.values())
    by_class = collections.defaultdict(list)
    for s in sorted(good):
        r = good[s]
        if r["verdict"] == "violation":
            by_class[r["violation"]["class"]].append(s)
    known = load_known()
    new_violations = []
    known_hits = collections.OrderedDict()
    unminimised = 0
    os.makedirs(os.path.join(ROOT, "replays"), exist_ok=True)
    for cls in sorted(by_class):
        seeds = by_class[cls]
        for s in seeds[: opts["max_min"]]:
            r = good[s]
            pseed = r["probe_seed"]
            fn = lambda steps, _p=pseed: run_steps(steps, _p)
            steps = r["steps"][: (r["violation"]["step"] + 1) if r["violation"].get("step") is not None else None]
            mins, nruns = minimize.minimize(fn, steps, cls, max_runs=300 if tier == "thorough" else 160, wall=opts["wall"], workers=workers)
            rep = runner.run_one(fn, mins, wall=opts["wall"])
            if not (rep.get("ok") and rep["res"]["verdict"] == "violation" and rep["res"]["violation"]["class"] == cls):
                # must reproduce in a fresh process; if it does not, the simulator is not to be believed
                harness_errors.append("seed %d: minimised history does not replay (%s)" % (s, cls))
                continue
            vio = rep["res"]["violation"]
            e = match_known(known, prop, mins, vio)
            path = os.path.join(ROOT, "replays", "%s_%s_%d.json" % (prop, hashlib.sha256(cls.encode()).hexdigest()[:6], s))
            doc = {"property": prop, "seed": s, "probe_seed": pseed, "config": r.get("config"), "steps": mins, "violation": vio,
                   "original_steps": len(r["steps"]), "minimisation_runs": nruns}
            if e is not None:
                known_hits.setdefault(e["id"], {"entry": e, "seeds": [], "example": doc})["seeds"].append(s)
            else:
                json.dump(doc, open(path, "w"), indent=1)
                new_violations.append((s, cls, path, vio))
        unminimised += max(0, len(seeds) - opts["max_min"])

    # ---- 4. evidence
    cov = coverage(prop, good, verdicts, results, time.time() - t0, harness_errors, known_hits, new_violations, unminimised)
    cov["regression_replays"] = {"run": len(regress), "failed": len(regress_failed)}
    write_evidence(prop, tier, base, cov, time.time() - t0, len(new_violations) + len(regress_failed), assumptions(prop))

    # ---- 5. verdict
    for kid, h in known_hits.items():
        print("KNOWN-FINDING: property=%s %s [%s; seeds %s]" % (prop, h["entry"]["detail"], kid, h["seeds"][:3]))
    for f, vio in regress_failed:
        print("VIOLATION property=%s replay=%s" % (prop, os.path.join(ROOT, f)))
        print("  regression replay fails again: class=%s %s" % (vio["class"], vio["detail"][:300]))
    for s, cls, path, vio in new_violations:
        print("VIOLATION property=%s replay=%s" % (prop, path))
        print("  seed=%d class=%s %s" % (s, cls, vio["detail"][:300]))
    print("%s %s: runs=%d ok=%d discard=%d violations=%d (new=%d) harness_errors=%d wall=%.0fs" % (
        prop, tier, len(results), verdicts.get("ok", 0), verdicts.get("discard", 0), verdicts.get("violation", 0), len(new_violations),
        len(harness_errors), time.time() - t0))
    if new_violations or regress_failed:
        return 1
    if harness_errors:
        for h in harness_errors[:10]:
            print("HARNESS-ERROR:", h)
        return 2
    return 0


def digests(runner, run_seed, seeds, workers, wall, harness_errors):
    out = runner.run_parallel(run_seed, seeds, workers=workers, wall=wall)
    d = {}
    for s, o in out:
        if o.get("ok"):
            d[s] = o["res"]["log_digest"] + ":" + o["res"]["verdict"]
        else:
            o2 = runner.run_one(run_seed, s, wall=wall * 3)
            if o2.get("ok"):
                d[s] = o2["res"]["log_digest"] + ":" + o2["res"]["verdict"]
            else:
                harness_errors.append("self-test seed %d: %s" % (s, o2.get("err")))
    return d


def digests_main(prop, seeds):
    import casadi  # noqa: F401
    import rockit  # noqa: F401
    from . import runner

    run_seed, _ = engine_for(prop)
    errs = []
    d = digests(runner, run_seed, seeds, int(os.environ.get("VERIF_WORKERS", "8")), 90, errs)
    print(json.dumps({str(k): v for k, v in d.items()}))
    return 0


def replay_main(path):
    import casadi  # noqa: F401
    import rockit  # noqa: F401
    from . import runner

    doc = json.load(open(path))
    prop = doc["property"]
    _, run_steps = engine_for(prop)
    o = runner.run_one(lambda steps: run_steps(steps, doc["probe_seed"]), doc["steps"], wall=120)
    if not o.get("ok"):
        print("HARNESS-ERROR:", o.get("err"))
        return 2
    r = o["res"]
    if r["verdict"] == "violation":
        print("VIOLATION property=%s replay=%s" % (prop, path))
        print("  class=%s step=%s %s" % (r["violation"]["class"], r["violation"]["step"], r["violation"]["detail"][:400]))
        return 1
    print("replay of %s: %s (no violation)" % (path, r["verdict"]))
    return 0


def coverage(prop, good, verdicts, results, wall, harness_errors, known_hits, new_violations, unminimised):
    faults = collections.Counter()
    probes = collections.Counter()
    ops = collections.Counter()
    transitions = set()
    hist_keys = set()
    nontrivial_keys = set()
    steps = 0
    checks = checks_equal = bit_equal = rejected = handoffs = 0
    for r in good.values():
        st = r.get("stats", {})
        faults.update(st.get("faults", {}))
        probes.update(st.get("probes", {}))
        ops.update(st.get("ops", {}))
        transitions.update(st.get("transitions", []))
        steps += r.get("nsteps", 0)
        checks += st.get("checks", 0)
        checks_equal += st.get("checks_equal", 0)
        bit_equal += st.get("bit_equal", 0)
        rejected += st.get("rejected_loudly", 0)
        handoffs += st.get("handoffs", 0)
        hist_keys.add(r.get("history_key"))
        if r.get("nontrivial"):
            nontrivial_keys.add(r.get("history_key"))
    samples = []
    for s in sorted(good)[:400]:
        r = good[s]
        if r.get("nontrivial") and r["verdict"] == "ok":
            samples.append({"seed": s, "steps": [compact(x) for x in r["steps"]]})
            if len(samples) >= 2:
                break
    if not samples and good:
        s = sorted(good)[0]
        samples.append({"seed": s, "steps": [compact(x) for x in good[s]["steps"]]})
    if not samples:
        samples.append({"note": "no run completed"})
    n = len(results)
    case_keys = set()
    ncases = 0
    for r in good.values():
        if "case_keys" in r:
            case_keys.update(r["case_keys"])
            ncases += r.get("cases", 0)
    if prop == "C20":
        samples = []
        for s in sorted(good):
            r = good[s]
            if r.get("sample_case"):
                samples.append({"seed": s, "case": r["sample_case"], "steps": [compact(x) for x in r["steps"]]})
            if len(samples) >= 2:
                break
        if not samples:
            samples.append({"note": "no case completed"})
    cov = {
        "evaluations": ncases if prop == "C20" else n,
        "distinct_nontrivial": len(case_keys) if prop == "C20" else len(nontrivial_keys),
        "rule": RULES.get(prop, ""),
        "samples": samples,
        "runs_per_hour": int(n / max(wall, 1e-6) * 3600),
        "simulated_time": {"unit": "steps (rockit has no clock)", "steps": steps, "solver_handoffs": handoffs},
        "verdicts": dict(verdicts),
        "discard_rate": round(verdicts.get("discard", 0) / max(1, len(good)), 4),
        "faults_fired": dict(faults),
        "probes": dict(probes),
        "ops_executed": dict(ops),
        "distinct_histories": len(hist_keys),
        "distinct_abstract_transitions": len(transitions),
        "oracle": {"check_steps": checks, "equality_reached": checks_equal, "bit_identical": bit_equal, "rejected_loudly": rejected},
        "known_findings_hit": {k: len(v["seeds"]) for k, v in known_hits.items()},
        "violations_same_class_not_minimised": unminimised,
        "harness_errors": len(harness_errors),
        "components": COMPONENTS,
        "exhaustive": False,
    }
    if prop == "C20":
        cov["base_ocps"] = n
        cov["exhaustive_per_base"] = True
        cov["distinct_case_keys_are"] = "fault kind | position | method | timing | trigger"
        cov["fault_kinds"] = sorted(set(k.split("|")[0] for k in case_keys))
    return cov


def compact(step):
    s = json.dumps(step, separators=(",", ":"))
    return s if len(s) < 240 else s[:237] + "..."


COMPONENTS = {
    "real": ["rockit (all of it, from /repo's working tree)", "casadi Opti / MX / Function", "pickle + CasADi string serializer",
             "ipopt / sqpmethod in runs with solver mode real"],
    "stub": ["casadi.Opti.solve / solve_limited (records the hand-off; scheduler decides success, failure, interrupt)",
             "file system behind rockit.ocp.open (in-memory, write-through; ENOSPC/EACCES/EIO/torn/lost)"],
    "not_simulated": ["clock, timers, network, threads: rockit has none"],
}

RULES = {
    "C19": "one seed -> convex OCP -> seeded history with solver faults -> to_function(args, results) -> later updates of unlisted values -> evaluation at seeded argument values vs the imperative pipeline on a fresh replica; non-trivial = distinct (op sequence, argument kinds, method, solver) whose comparison reached equality",
    "C12": "one seed -> swarm config (templates, direct stages, clones, parent variable) -> seeded interleaving of template / clone / sibling / parent edits, queries and solves with solver faults; non-trivial = distinct sequence of (op kind, actor class) that contains at least one clone and reached the equality oracle of a check",
    "C20": "one seed -> one well-posed base OCP; for it every (fault kind x position x method x timing x trigger) case is enumerated; evaluations = cases executed; distinct = distinct case keys whose control run reached the solver seam",
    "C13": "one seed -> swarm config -> well-posed base OCP(s) -> seeded history over the public API with solver faults; non-trivial = distinct op-kind sequence (with method classes) that contains a post-transcription edit/update or a fired fault AND reached the equality oracle of a check step",
    "C09": "as C13 with set_value-heavy weights, parameters of every kind, save/load restarts; non-trivial as C13",
    "C10": "as C13 with set_initial-heavy weights and the absolute starting-point oracle; non-trivial as C13",
    "C18": "as C13 plus save/load (restart, fork) and disk faults; non-trivial as C13 (restart/fork count as events)",
}


def assumptions(prop):
    return [
        "history oracles are relative to a fresh transcription by the same rockit code (errors common to both sides are invisible)",
        "sampling, not enumeration: a clean batch is evidence, not proof",
        "NLP equality is judged on sizes, f/g at x0 and 3 seeded probe points, lbg/ubg, x0, p, solver name/options",
    ]


def write_evidence(prop, tier, seed, cov, wall, nviol, assume):
    os.makedirs(os.path.join(ROOT, "evidence"), exist_ok=True)
    doc = {"property_id": prop, "tier": tier, "seed": seed, "level": LEVEL[prop], "coverage": cov, "assumptions": assume,
           "wall_s": round(wall, 2), "violations": nviol}
    tmp = os.path.join(ROOT, "evidence", prop + ".json.tmp")
    json.dump(doc, open(tmp, "w"), indent=1, default=str)
    os.replace(tmp, os.path.join(ROOT, "evidence", prop + ".json"))
