"""History engine: one World, a seeded scheduler, the `check` oracle.

Used by C13 (flagship), C09, C10 and C18 with different swarm weights and extra oracles.
A run is `steps` (JSON). `run_seed` generates and executes on the fly; `run_steps` replays.
"""
import gc
import hashlib
import json
import os
import random
import traceback

import numpy as np

from . import gen as G
from . import seams as S
from .model import Actor, Spec, build, declared_fingerprint, jcopy, program, raw_value

SPEC_OPS = ("new_ocp", "sym", "set_der", "set_next", "add_alg", "subject_to", "clear_constraints", "add_objective",
            "set_T", "set_t0", "method", "solver", "set_value", "set_value_cat", "set_initial", "callback")
# ops that (should) invalidate a transcription
STRUCTURAL = ("sym", "set_der", "set_next", "add_alg", "subject_to", "clear_constraints", "add_objective",
              "set_T", "set_t0", "method", "solver", "callback")


class Violation(Exception):
    def __init__(self, cls, detail, step=None):
        Exception.__init__(self, "%s: %s" % (cls, detail))
        self.cls = cls
        self.detail = detail
        self.step = step


class Discard(Exception):
    """the generated history is ill-posed (fresh write fails too); not a verdict"""


class PristineRef:
    """Reference transcriptions in a process that has never executed a rockit operation.

    The run process forks a *twin* before it does anything; the twin stays pristine and, per request, forks a
    grandchild that writes the given specification afresh, hands it to a (stub) solver seam and returns the
    hand-off record.  An error shared by the evolved OCP and by a fresh OCP built later in the same, already used
    process (a process-global cache, a patched CasADi class, a counter) shows only against this reference."""

    def __init__(self):
        self.req_r, self.req_w = os.pipe()
        self.res_r, self.res_w = os.pipe()
        self.pid = os.fork()
        if self.pid == 0:
            os.close(self.req_w)
            os.close(self.res_r)
            self._serve()
            os._exit(0)
        os.close(self.req_r)
        os.close(self.res_w)
        self.rf = os.fdopen(self.res_r, "r")
        self.wf = os.fdopen(self.req_w, "w")

    def _serve(self):
        rf = os.fdopen(self.req_r, "r")
        wf = os.fdopen(self.res_w, "w")
        for line in rf:
            req = json.loads(line)
            r_, w_ = os.pipe()
            pid = os.fork()
            if pid == 0:
                os.close(r_)
                try:
                    out = self._compute(req)
                except BaseException as e:
                    out = {"error": "%s: %s" % (type(e).__name__, str(e)[:200])}
                with os.fdopen(w_, "w") as f:
                    f.write(json.dumps(out))
                os._exit(0)
            os.close(w_)
            with os.fdopen(r_, "r") as f:
                data = f.read()
            os.waitpid(pid, 0)
            wf.write((data or json.dumps({"error": "no answer"})) + "\n")
            wf.flush()

    @staticmethod
    def _compute(req):
        seam = S.SolverSeam(req["probe_seed"])
        seam.install()
        with S.Silence():
            a = build(req["ops"], "pristine")
            a.ocp.solve()
        rec = seam.records[-1]
        return {k: (v.tolist() if isinstance(v, np.ndarray) else ([x.tolist() for x in v] if k == "g" else v)) for k, v in rec.items() if not k.startswith("_")}

    def record(self, ops, probe_seed):
        self.wf.write(json.dumps({"ops": ops, "probe_seed": probe_seed}) + "\n")
        self.wf.flush()
        line = self.rf.readline()
        out = json.loads(line) if line else {"error": "twin died"}
        if "error" in out:
            return None, out["error"]
        for k in ("x0", "p", "lbg", "ubg"):
            out[k] = np.array(out[k], dtype=float)
        out["g"] = [np.array(x, dtype=float) for x in out["g"]]
        return out, None

    def close(self):
        try:
            self.wf.close()
            self.rf.close()
            os.waitpid(self.pid, 0)
        except Exception:
            pass


class World:
    def __init__(self, prop, probe_seed, cfg=None):
        self.prop = prop
        self.cfg = cfg or {}
        self.probe_seed = probe_seed
        self.actors = {}
        self.st = {}  # per-actor model-side state
        self.seam = S.SolverSeam(probe_seed)
        self.fs = S.FakeFS()
        self.disk_model = {}  # path -> Spec snapshot (what a correct save would make durable)
        self.log = []  # event log (deterministic)
        self.stats = {"faults": {}, "probes": {}, "ops": {}, "transitions": set(), "checks_equal": 0, "checks": 0,
                      "rejected_loudly": 0, "bit_equal": 0}
        self.extra_oracles = []
        self.pristine = None
        self.on_edit_raised = []
        self.on_fresh_failure = []
        self.last_sol = {}
        self.solving = None  # the actor whose real solve is running (None, an Actor, or "fresh")
        self.cb_counts = {"evolved": 0, "fresh": 0}
        from . import model as M

        M.CB_HOOKS.clear()
        M.CB_HOOKS["*"] = self.cb_dispatch

    # -- bookkeeping
    def fault(self, k):
        self.stats["faults"][k] = self.stats["faults"].get(k, 0) + 1

    def probe(self, k, n=1):
        self.stats["probes"][k] = self.stats["probes"].get(k, 0) + n

    def install(self):
        self.seam.install()
        self.fs.install()

    def state(self, a):
        return self.st.setdefault(a, {"transcribed": False, "ever": False, "pending": [], "solved": False, "failed": False,
                                      "gen": 0, "dirty": False})

    def abstract(self, a):
        st = self.state(a)
        sp = self.actors[a].spec if a in self.actors else Spec()
        return (st["transcribed"], bool(st["pending"]), st["solved"], st["failed"], (sp.method or {}).get("cls"), st["gen"])

    # -- execution of one step
    def execute(self, i, step):
        a = step.get("a", "A")
        k = step["op"]
        before = self.abstract(a) if a in self.actors or k == "new_ocp" else None
        try:
            with S.Silence():
                out = self._execute(i, step, a, k)
        except Violation as v:
            v.step = i
            self.log.append([i, a, k, "VIOLATION:" + v.cls])
            raise
        except Discard:
            self.log.append([i, a, k, "discard"])
            raise
        self.log.append([i, a, k, out])
        self.stats["ops"][k] = self.stats["ops"].get(k, 0) + 1
        if before is not None:
            self.stats["transitions"].add((before, k, out.split(":")[0]))
        return out

    def _execute(self, i, step, a, k):
        if k == "new_ocp":
            act = Actor(a)
            self.actors[a] = act
            self.st.pop(a, None)
            act.apply(step)
            return "ok"
        if a not in self.actors:
            return "skipped"
        act = self.actors[a]
        st = self.state(a)
        if k in SPEC_OPS:
            try:
                missing = self._missing(act, step)
            except Exception:
                missing = True
            if missing:
                return "skipped"
            try:
                act.apply(step)
            except KeyError as e:
                return "skipped"
            except Exception as e:
                if step.get("expect") == "reject":
                    self.fault("rejected_edit")
                    return "raised:" + type(e).__name__
                # an edit the model considers valid was rejected.  C13 allows a loud rejection, but what
                # "the final specification" is after it cannot be decided (rockit may have applied part
                # of the edit before raising), so this actor is no longer judged by the history oracle.
                st["tainted"] = True
                self.probe("edit_raised")
                self.edit_raised(act, st, step, e)
                return "raised:" + type(e).__name__
            if step.get("expect") == "reject":
                raise Violation("ill-posed-edit-accepted", "%s was accepted: %s" % (k, json.dumps(step)))
            if st["ever"]:
                if k in STRUCTURAL and k != "method":
                    st["pending"].append(k)
                    self.probe("post_transcription_edit")
                elif k in ("set_value", "set_value_cat", "set_initial"):
                    self.probe("post_transcription_update")
                    st["dirty"] = True
            if k == "method":
                st["pending"] = []
            if k in STRUCTURAL:
                st["transcribed"] = False
            return "ok"
        if k in ("query", "solve", "read_ncs"):
            fp0 = declared_fingerprint(act.ocp)
            if k == "query":
                out = self._query(act, st, step)
            elif k == "solve":
                out = self._solve(act, st, step)
            else:
                try:
                    act.ocp.non_converged_solution
                    out = "ok"
                except Exception as e:
                    out = "raised:" + type(e).__name__
            if declared_fingerprint(act.ocp) != fp0:
                raise Violation("declared-changed", "%s altered what the user declared" % json.dumps(step)[:200])
            return out
        if k == "warmstart":
            return self._warmstart(act, st, step)
        if k == "save":
            return self._save(act, st, step)
        if k == "load":
            return self._load(a, act, st, step)
        if k == "damage":
            if step["how"] == "tear":
                n = len(self.fs.files.get(step["path"], b""))
                self.fs.tear(step["path"], int(n * step.get("frac", 0.5)))
            else:
                self.fs.lose(step["path"])
            self.disk_model.pop(step["path"], None)
            return "ok"
        if k == "check":
            self.check(act, st, i)
            return "ok"
        raise ValueError(k)

    def _missing(self, act, step):
        """does the step mention symbols that do not exist (after minimisation removed their declaration)?"""
        from . import expr as E

        names = set()
        for key in ("expr",):
            if key in step:
                E.symbols_of(step[key], names)
        if step["op"] == "set_der" or step["op"] == "set_next":
            names.add(step["state"])
        if step["op"] == "set_value":
            names.add(step["p"])
        if step["op"] == "set_value_cat":
            names.update(step["ps"])
        if step["op"] == "set_initial":
            if step["x"] not in ("T", "t0"):
                names.add(step["x"])
            if step["g"][0] == "expr":
                E.symbols_of(step["g"][1], names)
        if step["op"] == "set_T" and step["T"][0] == "par":
            names.add(step["T"][1])
        if step["op"] == "sym" and step["name"] in act.syms:
            return True
        if step["op"] == "sym":
            return False
        return any(n not in act.syms for n in names if not n.startswith("?"))

    # -- MPC-style warm start: the guess is taken from the last solution (concretised into the step list)
    def _warmstart(self, act, st, step):
        sol = self.last_sol.get(act.name)
        x = step.get("x")
        sd = act.spec.sym(x) if x else None
        if sol is None or sd is None or x not in act.syms or act.spec.method is None:
            return "skipped"
        try:
            _, v = sol.sample(act.syms[x], grid="control")
        except Exception as e:
            return "raised:" + type(e).__name__
        rows = sd.get("rows", 1) * sd.get("cols", 1)
        N = act.spec.method["N"]
        a = np.array(v, dtype=float)
        a = a.reshape((-1, rows)).T if a.ndim > 1 or rows == 1 else a.reshape((rows, -1))
        if a.shape != (rows, N + 1) or not np.all(np.isfinite(a)):
            return "skipped"
        if sd["kind"] == "control" or (sd["kind"] == "variable" and not sd.get("include_last")):
            a = a[:, :N]
        if a.shape[1] == rows and rows > 1:
            return "skipped"
        new = {"op": "set_initial", "a": step.get("a", "A"), "x": x, "g": ["arr", np.round(a, 6).tolist(), "np"], "from": "warmstart"}
        step.clear()
        step.update(new)  # the replay file carries the concrete numbers, not the dependence on a solution
        self.probe("warmstart")
        return self._execute(-1, step, step["a"], "set_initial")

    def cb_dispatch(self, it, sol):
        """the user's callback was invoked by the solver: what it does depends on whose solve is running.  (The callback
        object of a loaded OCP is an unpickled copy that still carries the name it was created with, so neither the
        counting nor the re-entry may go by that name.)"""
        act = self.solving
        if act is None:
            return
        if act == "fresh":
            self.cb_counts["fresh"] += 1
            return
        self.cb_counts["evolved"] += 1
        self.cb_hook(act)(it, sol)

    def cb_hook(self, act):
        """what the registered callback does when the real solver calls it between iterations: re-entry"""
        def hook(it, sol):
            self.probe("callback_invoked")
            if act.hidden.get("cb_raise_at") is not None and it >= act.hidden["cb_raise_at"]:
                act.hidden["cb_raise_at"] = None
                self.fault("callback_raised")
                raise RuntimeError("user callback failed (injected)")
            try:
                xs = act.spec.names("state")
                if xs:
                    sol.sample(act.syms[xs[0]], grid="control")
                act.ocp.value(act.ocp.T)  # re-entrant query on the OCP that is being solved
                for other in self.actors.values():
                    if other is not act and other.ocp is not None and other.spec.method is not None:
                        other.ocp.sample(other.ocp.t, grid="control")  # forces a foreign transcription inside this solve
                        self.probe("callback_reentry_foreign_actor")
                        break
                self.probe("callback_reentry")
            except Exception as e:
                # (seen: CasADi refuses sol.value of a decision variable that Opti dropped from the NLP)
                self.probe("callback_reentry_raised")
        return hook

    # -- queries
    def _query(self, act, st, step):
        o = act.ocp
        w = step["what"]
        try:
            if w == "sample":
                o.sample(act.target(step["x"]) if "x" in step else o.t, grid=step.get("grid", "control"))
            elif w == "value":
                o.value(o.T)
            elif w == "jacobian":
                o.jacobian()
            elif w == "gist":
                o.gist
            elif w == "initial_value":
                tgt = step.get("x")
                e = o.sample(act.target(tgt), grid="control")[1] if tgt else o.value(o.T)
                o.initial_value(e)
            elif w == "sol_sample":
                sol = self.last_sol.get(act.name)
                if sol is None:
                    return "skipped"
                sol.sample(act.target(step["x"]) if "x" in step else o.t, grid=step.get("grid", "control"))
            else:
                raise ValueError(w)
        except KeyError:
            return "skipped"
        except Exception as e:
            if st["pending"]:
                self.stats["rejected_loudly"] += 1
                return "raised:" + type(e).__name__
            if w != "sol_sample":
                self.unexpected_raise(act, st, "query", e, lambda fresh: self._do_query(fresh, step))
            return "raised:" + type(e).__name__
        st["transcribed"] = True
        st["ever"] = True
        return "ok"

    def _do_query(self, act, step):
        o = act.ocp
        w = step["what"]
        if w == "sample":
            o.sample(act.target(step["x"]) if "x" in step else o.t, grid=step.get("grid", "control"))
        elif w == "value":
            o.value(o.T)
        elif w == "jacobian":
            o.jacobian()
        elif w == "gist":
            o.gist
        elif w == "initial_value":
            tgt = step.get("x")
            e = o.sample(act.target(tgt), grid="control")[1] if tgt else o.value(o.T)
            o.initial_value(e)

    def unexpected_raise(self, act, st, what, e, redo):
        """a query / solve raised although no rejected edit is pending: is the specification itself ill-posed
        (then a freshly written copy raises too) or did the history break the object?"""
        if st.get("tainted"):
            return
        try:
            fresh = build(program(act.spec), "fresh")
            redo(fresh)
        except Exception:
            self.probe("raise_shared_by_fresh_specification")
            return
        raise Violation("evolved-raises", "%s raises %s on the evolved OCP (%s) but works on the same specification written afresh" % (
            what, type(e).__name__, str(e)[:200]))

    # -- solves (the solver seam decides the outcome)
    def _solve(self, act, st, step):
        fault = step.get("fault")
        self.seam.mode = step.get("mode", "stub")
        if self.seam.mode == "real" and (act.spec.method or {}).get("intg", "rk") not in ("rk", "expl_euler"):
            self.seam.mode = "stub"  # (the method may have changed since the step was generated; see the scheduler)
            self.probe("real_solve_downgraded_builtin_integrator")
        ran_real = self.seam.mode == "real"
        if fault == "interrupt_in_transcription":
            # Ctrl-C while rockit is transcribing (only if this solve has to transcribe at all)
            self.seam.interrupt_after = step.get("k", 0)
            self.seam.next_fault = None
        elif fault == "cb_raise":
            # the user's callback raises in the middle of a real solve
            act.hidden["cb_raise_at"] = step.get("at", 1)
            self.seam.next_fault = None
        else:
            self.seam.next_fault = fault
        self.seam.stub_point = step.get("point", "x0")
        n0 = self.seam.reached
        self.solving = act
        self.cb_counts = {"evolved": 0, "fresh": 0}
        try:
            how = step.get("how", "solve")
            sol = act.ocp.solve() if how == "solve" else act.ocp.solve_limited()
            self.last_sol[act.name] = sol
            out = "ok"
            st["solved"], st["failed"] = True, False
        except KeyboardInterrupt:
            out = "raised:KeyboardInterrupt"
            st["failed"] = True
        except S.SolverFailure as e:
            out = "raised:SolverFailure"
            st["failed"] = True
        except Exception as e:
            out = "raised:" + type(e).__name__
            if self.seam.reached > n0:
                st["failed"] = True  # genuine solver failure
                self.fault("real_solver_failed")
        finally:
            self.solving = None
            self.seam.next_fault = None
            self.seam.mode = "stub"
            act.hidden["cb_raise_at"] = None
            if fault == "interrupt_in_transcription":
                fired = self.seam.interrupt_after is None
                self.seam.interrupt_after = None
                if fired:
                    self.fault("interrupt_in_transcription")
                    st["transcribed"] = False
                fault = "interrupt_in_transcription" if fired else None
        if self.seam.reached > n0:
            st["transcribed"] = True
            st["ever"] = True
            if fault:
                self.fault("solver_" + fault)
            elif ran_real and not st.get("tainted"):
                self.compare_real_solve(act, st, step, out)
        else:
            st["ever"] = True  # a transcription was at least attempted
            if st["pending"]:
                self.stats["rejected_loudly"] += 1
            elif out.startswith("raised") and fault is None:
                self.unexpected_raise(act, st, "solve", Exception(out), lambda fresh: self.handoff(fresh))
        return out

    def compare_real_solve(self, act, st, step, out):
        """with the real (deterministic) solver, the evolved OCP and the same specification written afresh must end the
        same way: both succeed with the same solution, iteration count and number of callback invocations, or both fail"""
        try:
            fresh = build(program(act.spec), "fresh")
        except Exception:
            return
        self.seam.mode = "real"
        self.solving = "fresh"
        how = step.get("how", "solve")
        try:
            solF = fresh.ocp.solve() if how == "solve" else fresh.ocp.solve_limited()
            outF = "ok"
        except KeyboardInterrupt:
            outF = "raised:KeyboardInterrupt"
        except Exception as e:
            outF = "raised:" + type(e).__name__
            errF = str(e)
        finally:
            self.solving = None
            self.seam.mode = "stub"
        if out.split(":")[0] != outF.split(":")[0]:
            raise Violation("solve-outcome-differs", "real %s on the evolved OCP: %s; on the same specification written afresh: %s (solver %s, callback %s)" % (
                how, out, outF, act.spec.solver[0] if act.spec.solver else None, act.spec.cb))
        if out == "ok":
            sol = self.last_sol.get(act.name)
            try:
                g1, g2 = np.array(sol.gist, dtype=float), np.array(solF.gist, dtype=float)
                it1 = sol.sol.stats().get("iter_count") if hasattr(sol.sol, "stats") else None
                it2 = solF.sol.stats().get("iter_count") if hasattr(solF.sol, "stats") else None
            except Exception:
                self.probe("real_solve_compare_unavailable")
                return
            if g1.shape != g2.shape or not np.allclose(g1, g2, rtol=1e-8, atol=1e-10, equal_nan=True):
                raise Violation("solve-result-differs", "real %s returns different solutions on the evolved OCP and on the same specification written afresh (max abs diff %s)" % (
                    how, float(np.nanmax(np.abs(g1 - g2))) if g1.shape == g2.shape else "shape"))
            if it1 != it2:
                raise Violation("solve-result-differs", "iteration counts differ: evolved %s, fresh %s" % (it1, it2))
            c1, c2 = self.cb_counts["evolved"], self.cb_counts["fresh"]
            if c1 != c2:
                raise Violation("callback-differs", "the callback ran %d times during solves of the evolved OCP but %d times on the fresh one" % (c1, c2))
        self.probe("real_solve_compared_with_fresh")

    # -- persistence
    def _save(self, act, st, step):
        f = step.get("fault")
        if f:
            self.fs.next_fault = tuple(f)
        fired0 = sum(self.fs.fired.values())
        try:
            act.ocp.save(step["path"])
        except Exception as e:
            self.fs.next_fault = None
            self.disk_model.pop(step["path"], None)
            if sum(self.fs.fired.values()) == fired0:
                # no disk fault was injected: saving must work in every state of the OCP
                raise Violation("save-raises", "ocp.save raised %s although the disk is healthy: %s [transcribed=%s, edited since=%s]" % (
                    type(e).__name__, str(e)[:200], st["ever"], bool(st["pending"])))
            self.fault("save_" + (f[0] if f else "raised"))
            st["transcribed"] = False
            return "raised:" + type(e).__name__
        self.fs.next_fault = None
        self.disk_model[step["path"]] = act.spec.clone()
        if st["transcribed"]:
            self.probe("save_while_transcribed")
        if st["dirty"]:
            self.probe("save_after_post_transcription_update")
        st["transcribed"] = False
        return "ok"

    def _load(self, a, act, st, step):
        from rockit import Ocp

        path = step["path"]
        if path not in self.disk_model:
            # torn / missing / never written: only recorded, not judged (DESIGN 2.3)
            try:
                Ocp.load(path)
                self.probe("load_damaged_returned")
            except BaseException as e:
                self.probe("load_damaged_raised")
            return "skipped"
        try:
            loaded = Ocp.load(path)
        except Exception as e:
            raise Violation("load-raises", "Ocp.load of an intact file raised %s: %s" % (type(e).__name__, str(e)[:200]))
        spec = self.disk_model[path].clone()
        tgt = step.get("as", a)
        new = Actor(tgt)
        new.ocp = loaded
        new.spec = spec
        try:
            new.syms = fetch_symbols(loaded, spec)
        except Exception as e:
            raise Violation("load-accessors", "symbols not reachable through the accessors: %s" % (str(e)[:200],))
        if tgt == a:
            self.probe("restart")
            self.actors.pop(a)
            del act
            gc.collect()
        else:
            self.probe("fork")
        self.actors[tgt] = new
        g = self.state(a)["gen"] if tgt == a else 0
        self.st[tgt] = {"transcribed": False, "ever": False, "pending": [], "solved": False, "failed": False, "gen": g + 1, "dirty": False}
        return "ok"

    # -- the oracle step
    def handoff(self, act):
        self.seam.mode = "stub"
        self.seam.next_fault = None
        self.seam.stub_point = "x0"
        n0 = len(self.seam.records)
        act.ocp.solve()
        if len(self.seam.records) != n0 + 1:
            raise Violation("no-handoff", "solve returned without handing an NLP to the solver")
        return self.seam.records[-1]

    def edit_raised(self, act, st, step, e):
        for h in self.on_edit_raised:
            h(self, act, st, step, e)

    def check(self, act, st, i):
        if st.get("tainted"):
            self.probe("check_skipped_tainted")
            return
        self.stats["checks"] += 1
        fp0 = declared_fingerprint(act.ocp)
        err = None
        try:
            rec1 = self.handoff(act)
        except Violation:
            raise
        except Exception as e:
            err = e
        # the specification written afresh
        try:
            fresh = build(program(act.spec), "fresh")
            recF = self.handoff(fresh)
        except Exception as e:
            for h in self.on_fresh_failure:
                h(self, act, e)
            raise Discard("fresh write of the final specification fails: %s %s" % (type(e).__name__, str(e)[:300]))
        if err is not None:
            if st["pending"]:
                # C13 carve-out: a change made after a transcription was rejected loudly
                self.stats["rejected_loudly"] += 1
                self.probe("carve_out")
                st["ever"] = True
                return
            raise Violation("evolved-raises", "solve raises %s on the evolved OCP but the freshly written specification transcribes: %s"
                            % (type(err).__name__, str(err)[:300]))
        st["transcribed"] = True
        st["ever"] = True
        st["pending"] = []
        rec2 = self.handoff(act)
        d = S.compare(rec1, rec2)
        if d:
            raise Violation("resolve-differs:" + d[0], "solving twice hands over different problems: " + d[1])
        d = S.compare(rec1, recF)
        if d:
            raise Violation("nlp-differs:" + d[0], "evolved vs freshly written: " + d[1])
        fp1 = declared_fingerprint(act.ocp)
        if fp0 != fp1:
            raise Violation("declared-changed", "transcribing altered the declared specification: %s -> %s" % (fp0, fp1))
        self.stats["checks_equal"] += 1
        if S.digest(rec1) == S.digest(recF):
            self.stats["bit_equal"] += 1
        if self.pristine is not None:
            recP, perr = self.pristine.record(program(act.spec), self.probe_seed)
            if recP is None:
                self.probe("pristine_reference_failed")
            else:
                d = S.compare(rec1, recP, fields=("size", "f", "g", "bounds", "x0", "p"))
                if d:
                    raise Violation("differs-from-pristine-process:" + d[0], "the NLP differs from the same specification written in a process "
                                    "that never ran rockit before (the fresh OCP built in the used process agrees with the evolved one): " + d[1])
                self.probe("pristine_reference_equal")
        self.log.append(["check", act.name, S.digest(rec1)])
        for orc in self.extra_oracles:
            orc(self, act, st, rec1, fresh, recF)


def fetch_symbols(ocp, spec):
    """names -> symbols of a loaded OCP through the public accessors, in declaration order"""
    syms = {}

    def bind(names, lst, what):
        if len(names) != len(lst):
            raise Exception("%s: %d declared, accessor returns %d" % (what, len(names), len(lst)))
        for n, s in zip(names, lst):
            sd = spec.sym(n)
            if (s.shape[0], s.shape[1]) != (sd.get("rows", 1), sd.get("cols", 1)):
                raise Exception("%s %s: shape %s" % (what, n, s.shape))
            syms[n] = s

    # a higher-order control (hstate) is a state in the accessors and brings one hidden control with it
    bind([s["name"] for s in spec.syms if s["kind"] in ("state", "hstate")], list(ocp.states), "states")
    bind(spec.names("qstate"), list(ocp.qstates), "qstates")
    ctrl_seq = [s["name"] if s["kind"] == "control" else None for s in spec.syms if s["kind"] in ("control", "hstate")]
    if len(ctrl_seq) != len(list(ocp.controls)):
        raise Exception("controls: %d expected, accessor returns %d" % (len(ctrl_seq), len(list(ocp.controls))))
    bind([n for n in ctrl_seq if n], [c for n, c in zip(ctrl_seq, list(ocp.controls)) if n], "controls")
    bind(spec.names("algebraic"), list(ocp.algebraics), "algebraics")
    for kind, acc in (("parameter", ocp.parameters), ("variable", ocp.variables)):
        for grid, il, key in (("", False, ""), ("control", False, "control"), ("control", True, "control+")):
            names = [n for n in spec.names(kind) if spec.sym(n).get("grid", "") == grid and bool(spec.sym(n).get("include_last", False)) == il]
            bind(names, list(acc[key]) if key in acc else [], "%s[%r]" % (kind, key))
    return syms


# ----------------------------------------------------------------------------------------------
# scheduler
# ----------------------------------------------------------------------------------------------
DEFAULT_WEIGHTS = {
    "set_value": 3, "set_initial": 3, "subject_to": 2, "clear_constraints": 0.7, "add_objective": 1, "method": 2, "solver": 1,
    "set_T": 1, "set_t0": 0.6, "query": 2, "solve": 3, "read_ncs": 0.3, "check": 2, "reject": 0.5, "save": 0, "load": 0,
    "late_sym": 0.4, "callback": 0.3, "mpc": 1.0, "redeclare": 1.0, "catsave": 0, "T_roundtrip": 0.6,
}


def swarm(r, prop, base_cfg):
    """per-run configuration: enabled op kinds, weights, fault kinds, bounds"""
    cfg = dict(base_cfg)
    w = dict(DEFAULT_WEIGHTS)
    w.update(base_cfg.get("weights", {}))
    # swarm: switch off a random subset of op kinds, reweight the others
    for k in list(w):
        if k in ("check", "solve"):
            continue
        if r.random() < 0.25:
            w[k] = 0
        else:
            w[k] = w[k] * r.choice([0.5, 1, 1, 2])
    cfg["w"] = w
    cfg["nsteps"] = r.randint(3, base_cfg.get("max_steps", 14))
    cfg["p_fault"] = r.choice([0, 0.1, 0.2, 0.35])
    cfg["solve_mode_real"] = r.random() < base_cfg.get("p_real", 0.25)
    cfg["n_actors"] = 2 if r.random() < base_cfg.get("p_two_actors", 0.15) else 1
    cfg["keepN"] = r.random() < 0.7
    cfg["remethod_after_edit"] = r.choice([0.0, 0.3, 0.7])
    cfg["pristine_ref"] = r.random() < base_cfg.get("p_pristine_ref", 0.3)
    return cfg


class Scheduler:
    def __init__(self, r, cfg, world):
        self.r, self.cfg, self.w = r, cfg, world
        self.queue = []  # placed follow-up steps
        self.paths = ["a.rockit", "b.rockit"]

    def N(self, sp):
        return (sp.method or {}).get("N", 3)

    def next(self, a):
        if self.queue:
            return self.queue.pop(0)
        r, cfg = self.r, self.cfg
        act = self.w.actors[a]
        sp = act.spec
        st = self.w.state(a)
        table = [(wt, k) for k, wt in sorted(cfg["w"].items()) if wt > 0]
        for _ in range(20):
            k = G.wpick(r, table)
            s = self.make(k, a, sp, st)
            if s is not None:
                if isinstance(s, list):
                    self.queue.extend(s[1:])
                    s = s[0]
                return s
        return {"op": "check", "a": a}

    def make(self, k, a, sp, st):
        r, cfg = self.r, self.cfg
        N = self.N(sp)
        if k == "set_value":
            ps = sp.names("parameter")
            if not ps:
                return None
            p = G.pick(r, ps)
            scal = [q for q in ps if sp.sym(q).get("grid", "") == "" and sp.sym(q).get("rows", 1) * sp.sym(q).get("cols", 1) == 1 and sp.T != ["par", q]]
            if len(scal) >= 2 and r.random() < 0.4:
                # documented form: a simple concatenation of parameters with a stacked value
                two = r.sample(scal, 2)
                return {"op": "set_value_cat", "a": a, "ps": two, "v": [G.rnum(r), G.rnum(r)]}
            v = G.positive_value(r) if sp.T == ["par", p] else G.gen_value(r, sp.sym(p), N)
            if sp.sym(p).get("node_only"):
                v = G.node_only_value(r, sp, sp.sym(p))
            d = {"op": "set_value", "a": a, "p": p, "v": v}
            if isinstance(v, dict) and v.get("as") == "np" and r.random() < 0.6:
                d["reuse"] = True  # same numpy array object as last time, updated in place
            return d
        if k == "set_initial":
            tg = G.guess_targets(sp)
            if not tg:
                return None
            t, s = G.pick(r, tg)
            # placed, not uniform: a new guess for a free horizon matters most when time-dependent guesses exist,
            # and a time-dependent guess matters most when the horizon is free
            hz = [x for x in tg if x[1] is None]
            if hz and any(g[0] == "expr" for _, g in sp.initial) and r.random() < 0.5:
                t, s = G.pick(r, hz)
            g = G.gen_guess(r, t, s, N, cfg)
            gp = [q for q in sp.names("parameter") if sp.sym(q).get("grid", "") == "" and sp.sym(q).get("rows", 1) * sp.sym(q).get("cols", 1) == 1]
            if gp and s is not None and s["kind"] in ("state", "control") and s.get("rows", 1) * s.get("cols", 1) == 1 and r.random() < 0.15:
                # a guess that mentions a parameter: it must follow later changes of that parameter's value
                g = ["expr", ["*", ["s", G.pick(r, gp)], G.gen_time_expr(r)]]
            if hz and s is not None and s["kind"] in ("state", "control") and r.random() < 0.3:
                rows = s.get("rows", 1) * s.get("cols", 1)
                g = ["expr", G.gen_time_expr(r)] if rows == 1 else ["expr", ["vec"] + [G.gen_time_expr(r) for _ in range(rows)]]
            return {"op": "set_initial", "a": a, "x": t, "g": g}
        if k == "redeclare":
            # the model of one state is declared again (same shape), as users do when tuning a model between solves
            xs = sp.names("state")
            if not xs:
                return None
            x = G.pick(r, xs)
            rows = sp.sym(x).get("rows", 1)
            sig = G.atoms(sp, ("state", "control", "algebraic", "parameter", "variable"), allow_t=not sp.nxt)
            sig = [q for q in sig if not (q[0] in ("s", "i") and sp.T == ["par", q[1]])]
            e = G.gen_sum(r, sig) if rows == 1 else ["vec"] + [G.gen_sum(r, sig) for _ in range(rows)]
            if sp.nxt:
                return self.maybe_remethod([{"op": "set_next", "a": a, "state": x, "expr": e}], a, sp, st)
            return self.maybe_remethod([{"op": "set_der", "a": a, "state": x, "expr": e, "scale": sp.der.get(x, [None, 1])[1]}], a, sp, st)
        if k == "subject_to":
            c = G.gen_constraints(r, sp, cfg, 1)[0]
            c["a"] = a
            return self.maybe_remethod([c], a, sp, st)
        if k == "clear_constraints":
            out = [{"op": "clear_constraints", "a": a}]
            for c in G.gen_constraints(r, sp, cfg, r.randint(1, 2), first=True):
                c["a"] = a
                out.append(c)
            return self.maybe_remethod(out, a, sp, st)
        if k == "add_objective":
            o = G.gen_objectives(r, sp, cfg, 1)[0]
            o["a"] = a
            return self.maybe_remethod([o], a, sp, st)
        if k == "method":
            m = G.gen_method(r, cfg, sp, N=N if cfg["keepN"] else None)
            g0 = (sp.method or {}).get("grid") or {}
            if g0.get("cls") == "DenseEdges" and r.random() < 0.7:
                # placed: same family of grid, other shape parameters (rockit caches computed grids)
                m["grid"] = {"cls": "DenseEdges", "multiplier": G.pick(r, [x for x in (2, 5, 10) if x != g0.get("multiplier")]),
                             "edge_frac": G.pick(r, [0.1, 0.2, 0.3])}
            out = [{"op": "method", "a": a, "m": m}]
            if m["N"] != N:
                out += self.fixups(a, sp, m["N"])
            return out
        if k == "solver":
            sv = G.gen_solver(r, cfg)
            d = {"op": "solver", "a": a, "name": sv[0], "opts": sv[1]}
            if r.random() < 0.5:
                d["reuse"] = True  # same options dict object, updated in place
                if sp.solver and sp.solver[0] == sv[0] and r.random() < 0.7:
                    # a small change of one option of the current settings
                    o2 = jcopy(sp.solver[1])
                    o2["ipopt.max_iter" if sv[0] == "ipopt" else "max_iter"] = r.choice([0, 1, 2, 3, 5, 8])
                    d["opts"] = o2
            return self.maybe_remethod([d], a, sp, st)
        if k == "set_T":
            if sp.T[0] == "par":
                return None
            keep = r.random() < 0.7 or any(x == "T" for x, g in sp.initial)
            T = [sp.T[0], G.positive_value(r)] if keep else [G.pick(r, ["num", "free"]), G.positive_value(r)]
            if T[0] != "free" and any(E_mentions_T(o) for o in sp.obj):
                T[0] = "free"
            return self.maybe_remethod([{"op": "set_T", "a": a, "T": T}], a, sp, st)
        if k == "T_roundtrip":
            # the horizon is fixed for a moment and then made free again (no transcription in between): the guess the
            # user gave for it belongs to the specification all along
            which = G.pick(r, ["T", "t0"])
            cur = sp.T if which == "T" else sp.t0
            if cur[0] != "free" or not st["ever"]:
                return None
            out = []
            if not any(x == which for x, g in sp.initial):
                out.append({"op": "set_initial", "a": a, "x": which, "g": ["num", G.positive_value(r) if which == "T" else G.rnum(r, -1, 1)]})
            num = ["num", G.positive_value(r) if which == "T" else G.rnum(r, -1, 1)]
            if which == "T":
                out += [{"op": "set_T", "a": a, "T": num}, {"op": "set_T", "a": a, "T": jcopy(cur)}]
            else:
                out += [{"op": "set_t0", "a": a, "t0": num}, {"op": "set_t0", "a": a, "t0": jcopy(cur)}]
            return out
        if k == "set_t0":
            t0 = [sp.t0[0], G.rnum(r, -1, 1)]
            return self.maybe_remethod([{"op": "set_t0", "a": a, "t0": t0}], a, sp, st)
        if k == "query":
            w = G.pick(r, ["sample", "sample", "value", "jacobian", "gist", "initial_value", "sol_sample"])
            d = {"op": "query", "a": a, "what": w}
            if w in ("sample", "initial_value", "sol_sample") and r.random() < 0.7:
                xs = sp.names("state")
                d["x"] = G.pick(r, xs)
                if w != "initial_value":
                    d["grid"] = G.pick(r, ["control", "integrator"])
            return d
        if k == "solve":
            d = {"op": "solve", "a": a, "how": G.pick(r, ["solve", "solve", "solve_limited"])}
            # the real solver never runs on an NLP that contains a built-in integrator (cvodes / idas / collocation):
            # ipopt on such problems crashed inside CasADi (segmentation fault), which no simulator can survive
            if cfg["solve_mode_real"] and r.random() < 0.6 and (sp.method or {}).get("intg", "rk") in ("rk", "expl_euler"):
                d["mode"] = "real"
            if r.random() < cfg["p_fault"]:
                d["fault"] = G.pick(r, ["fail_before", "fail_after", "interrupt"])
                if not st["transcribed"] and r.random() < 0.5:
                    d["fault"] = "interrupt_in_transcription"
                    d["k"] = r.randint(0, 60)
                    d.pop("mode", None)
                if sp.cb and d.get("mode") == "real" and r.random() < 0.6:
                    d["fault"] = "cb_raise"
                    d["at"] = r.randint(0, 2)
            else:
                d["point"] = G.pick(r, ["x0", "seeded"])
            return d
        if k == "read_ncs":
            return {"op": "read_ncs", "a": a}
        if k == "catsave":
            # placed: values for several parameters at once (documented concatenation form), given after a solve,
            # must reach the file: update, save, restart
            scal = [q for q in sp.names("parameter") if sp.sym(q).get("grid", "") == "" and sp.sym(q).get("rows", 1) * sp.sym(q).get("cols", 1) == 1 and sp.T != ["par", q]]
            if len(scal) < 2:
                return None
            two = r.sample(scal, 2)
            path = G.pick(r, self.paths)
            out = [] if st["transcribed"] else [{"op": "solve", "a": a, "how": "solve", "point": "x0"}]
            out += [{"op": "set_value_cat", "a": a, "ps": two, "v": [G.rnum(r), G.rnum(r)]},
                    {"op": "save", "a": a, "path": path}, {"op": "load", "a": a, "path": path, "as": a}]
            return out
        if k == "mpc":
            # MPC-like inner loop: new parameter value, solve, read back, warm start, solve
            ps = sp.names("parameter")
            tg = [t for t, s in G.guess_targets(sp) if s is not None and s["kind"] in ("state", "control")]
            out = []
            for _ in range(r.randint(1, 2)):
                if ps:
                    p = G.pick(r, ps)
                    out.append({"op": "set_value", "a": a, "p": p, "v": G.positive_value(r) if sp.T == ["par", p] else G.gen_value(r, sp.sym(p), N)})
                out.append({"op": "solve", "a": a, "how": "solve", "point": "seeded"})
                if tg:
                    out.append({"op": "warmstart", "a": a, "x": G.pick(r, tg)})
            return out or None
        if k == "check":
            return {"op": "check", "a": a}
        if k == "callback":
            return self.maybe_remethod([{"op": "callback", "a": a}], a, sp, st)
        if k == "reject":
            return self.make_reject(a, sp)
        if k == "late_sym":
            n = len(sp.names("variable")) + 1
            while sp.sym("v%d" % n):
                n += 1
            nm = "v%d" % n
            out = [{"op": "sym", "a": a, "name": nm, "kind": "variable"},
                   {"op": "subject_to", "a": a, "expr": [">=", ["s", nm], ["c", G.rnum(r, -2, 0)]]},
                   {"op": "add_objective", "a": a, "expr": ["sq", ["-", ["s", nm], ["c", G.rnum(r)]]]}]
            return self.maybe_remethod(out, a, sp, st)
        if k == "save":
            d = {"op": "save", "a": a, "path": G.pick(r, self.paths)}
            if r.random() < cfg["p_fault"]:
                d["fault"] = G.pick(r, [["enospc", r.randint(0, 4000)], ["eacces"], ["eio"]])
            return d
        if k == "load":
            paths = sorted(self.w.fs.files.keys())
            if not paths:
                return None
            p = G.pick(r, paths)
            out = []
            if r.random() < cfg["p_fault"] * 0.5:
                out.append({"op": "damage", "a": a, "path": p, "how": G.pick(r, ["tear", "lose"]), "frac": round(r.random(), 2)})
            mode = G.pick(r, ["restart", "restart", "fork"])
            out.append({"op": "load", "a": a, "path": p, "as": a if mode == "restart" else "B" if a == "A" else "A"})
            return out
        return None

    def maybe_remethod(self, steps, a, sp, st):
        """after a post-transcription structural edit, usually re-declare the method (DESIGN 2.2)"""
        if st["ever"] and self.r.random() < self.cfg["remethod_after_edit"]:
            steps = steps + [{"op": "method", "a": a, "m": G.gen_method(self.r, self.cfg, sp, N=self.N(sp))}]
        return steps

    def fixups(self, a, sp, N):
        out = []
        for p in sp.names("parameter"):
            s = sp.sym(p)
            if s.get("grid", "") and not isinstance(raw_value(sp.values.get(p, 0)), (int, float)):
                out.append({"op": "set_value", "a": a, "p": p, "v": G.gen_value(self.r, s, N)})
                # (a node-only parameter gets fresh samples with its next set_value; until then its values are
                #  plain numbers, which the constants oracle notices and skips)
        for x, g in sp.initial:
            if g[0] == "arr" and x not in ("T", "t0"):
                s = sp.sym(x)
                rows = s.get("rows", 1) * s.get("cols", 1)
                v = np.array(raw_value(g[1]))
                if not (v.ndim == 2 and v.shape[1] == 1 and rows > 1):
                    out.append({"op": "set_initial", "a": a, "x": x, "g": G.gen_guess(self.r, x, s, N, self.cfg)})
        return out

    def make_reject(self, a, sp):
        """edits rockit must reject *before* mutating anything"""
        r = self.r
        xs = sp.names("state")
        ps = sp.names("parameter")
        opts = []
        if xs:
            opts.append({"op": "set_value", "a": a, "p": G.pick(r, xs), "v": 1.0, "expect": "reject"})
            opts.append({"op": "subject_to", "a": a, "expr": ["<=", ["s", G.pick(r, xs)], ["c", 1.0]], "grid": "nogrid", "expect": "reject"})
        if ps:
            opts.append({"op": "set_initial", "a": a, "x": G.pick(r, ps), "g": ["num", 1.0], "expect": "reject"})
        return G.pick(r, opts) if opts else None


def E_mentions_T(ast):
    from . import expr as E

    return E.mentions(ast, ("T",))


# ----------------------------------------------------------------------------------------------
# runs
# ----------------------------------------------------------------------------------------------
def make_world(prop, probe_seed, cfg):
    from . import props

    ref = PristineRef() if (cfg or {}).get("pristine_ref") else None  # forked before this process touches rockit
    w = World(prop, probe_seed, cfg)
    w.pristine = ref
    props.configure_world(w, prop)
    w.install()
    return w


def finish(w, steps, result):
    if w.pristine is not None:
        w.pristine.close()
    result["log_digest"] = hashlib.sha256(json.dumps(w.log, sort_keys=True, default=str).encode()).hexdigest()[:16]
    result["steps"] = steps
    result["nsteps"] = len(steps)
    result["outcomes"] = [l[3] for l in w.log if isinstance(l[0], int)]
    st = w.stats
    result["stats"] = {
        "faults": dict(st["faults"], **{"fs_" + k: v for k, v in w.fs.fired.items() if v}),
        "probes": st["probes"], "ops": st["ops"], "checks": st["checks"], "checks_equal": st["checks_equal"],
        "bit_equal": st["bit_equal"], "rejected_loudly": st["rejected_loudly"],
        "transitions": sorted(json.dumps(t) for t in st["transitions"]),
        "handoffs": w.seam.reached,
    }
    kinds = [s["op"] + (":" + s.get("fault", "") if s.get("fault") and isinstance(s.get("fault"), str) else "") for s in steps]
    result["history_key"] = hashlib.sha256(json.dumps([kinds, [s.get("m", {}).get("cls") for s in steps if s["op"] == "method"]]).encode()).hexdigest()[:16]
    nontrivial = (st["probes"].get("post_transcription_edit", 0) + st["probes"].get("post_transcription_update", 0)
                  + sum(st["faults"].values()) + st["probes"].get("restart", 0) + st["probes"].get("fork", 0)) > 0 and st["checks_equal"] > 0
    result["nontrivial"] = bool(nontrivial)
    return result


def run_seed(prop, seed, base_cfg):
    """generate + execute one run; returns a JSON-able result"""
    r = random.Random(seed)
    cfg = swarm(r, prop, base_cfg)
    probe_seed = r.randrange(1 << 30)
    w = make_world(prop, probe_seed, cfg)
    sched = Scheduler(r, cfg, w)
    steps = []
    result = {"prop": prop, "seed": seed, "probe_seed": probe_seed, "config": {k: v for k, v in cfg.items() if k not in ("weights",)},
              "verdict": "ok"}
    try:
        names = ["A", "B"][: cfg["n_actors"]]
        for a in names:
            ops, _ = G.gen_base(r, cfg)
            if r.random() < cfg.get("p_shuffle_base", 0.5):
                ops = G.shuffle_base(ops, r)  # the same declarations typed in another (legal) order
                w.probe("base_declarations_shuffled")
            delayed = None
            vals = [i for i, op in enumerate(ops) if op["op"] == "set_value"]
            if vals and r.random() < cfg.get("p_delayed_value", 0.12):
                # half-finished transcription: a parameter is left without value, the first solve raises,
                # the user then supplies the value
                delayed = ops.pop(G.pick(r, vals))
            for op in ops:
                op["a"] = a
                steps.append(op)
                w.execute(len(steps) - 1, op)
            if delayed is not None:
                delayed["a"] = a
                sched.queue += [{"op": "solve", "a": a, "how": "solve", "expect": "missing-value"}, delayed]
                w.fault("missing_value_then_supplied")
        for i in range(cfg["nsteps"]):
            live = sorted(w.actors.keys())
            a = G.pick(r, live)
            step = sched.next(a)
            steps.append(step)
            w.execute(len(steps) - 1, step)
        while sched.queue:  # placed follow-ups of the last step
            step = sched.queue.pop(0)
            steps.append(step)
            w.execute(len(steps) - 1, step)
        for a in sorted(w.actors.keys()):
            step = {"op": "check", "a": a}
            steps.append(step)
            w.execute(len(steps) - 1, step)
    except Violation as v:
        result["verdict"] = "violation"
        result["violation"] = {"class": v.cls, "detail": v.detail, "step": v.step}
    except Discard as d:
        result["verdict"] = "discard"
        result["detail"] = str(d)
    return finish(w, steps, result)


def run_steps(prop, steps, probe_seed, cfg=None):
    """replay: no PRNG involved"""
    w = make_world(prop, probe_seed, dict(cfg or {}, pristine_ref=True))
    result = {"prop": prop, "probe_seed": probe_seed, "verdict": "ok"}
    try:
        for i, step in enumerate(steps):
            w.execute(i, step)
    except Violation as v:
        result["verdict"] = "violation"
        result["violation"] = {"class": v.cls, "detail": v.detail, "step": v.step}
    except Discard as d:
        result["verdict"] = "discard"
        result["detail"] = str(d)
    return finish(w, steps, result)
