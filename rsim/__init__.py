"""rsim -- deterministic simulation with fault injection for rockit.

One integer (VERIF_SEED-derived) decides every choice of a run; a run is a list of
JSON steps (the replay file); the solver and the file system are owned seams.
See /verif/DESIGN.md.
"""
