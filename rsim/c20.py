"""C20 -- ill-posed specifications are rejected: fault enumeration.

One seed = one generated well-posed base OCP.  For that base the matrix
    fault kind x position (which state / parameter / stage) x method x timing x trigger
is enumerated completely.  A case is a list of steps (the replay file); the oracle is
"an exception is raised by the declaring call or at the latest by sample/solve, and no NLP
reaches the solver seam"; the un-faulted control run must reach the seam.
"""
import hashlib
import json
import random

from . import gen as G
from . import seams as S
from .model import Actor, jcopy

METHODS = ["SingleShooting", "MultipleShooting", "DirectCollocation"]

CFG = {"Nmax": 3, "Mmax": 2, "degmax": 2, "nx_max": 3, "nu_max": 2, "np_max": 2, "nv_max": 1, "w_parT": 0.5, "p_base_guess": 0.2,
       "vector_states": True, "discrete": True, "dae": True}


class CaseViolation(Exception):
    def __init__(self, cls, detail):
        Exception.__init__(self, cls + ": " + detail)
        self.cls, self.detail = cls, detail


# ----------------------------------------------------------------------------------------------
# executing one case
# ----------------------------------------------------------------------------------------------
_CTRL_CACHE = {}


def control_record(steps, probe_seed):
    """the hand-off record of the last trigger of a (well-posed) step list, None if it does not get there
    (memoised: the cases of one unit share a handful of control step lists)"""
    key = (probe_seed, json.dumps(steps, sort_keys=True))
    if key not in _CTRL_CACHE:
        if len(_CTRL_CACHE) > 64:
            _CTRL_CACHE.clear()
        _CTRL_CACHE[key] = _control_record(steps, probe_seed)
    return _CTRL_CACHE[key]


def _control_record(steps, probe_seed):
    seam = S.SolverSeam(probe_seed)
    seam.install()
    act = Actor("A")
    try:
        with S.Silence():
            for st in steps:
                if st["op"] == "trigger":
                    run_trigger(act, seam, st)
                elif st["op"] != "omission":
                    act.apply(st)
        return seam.records[-1] if seam.records else None
    except Exception:
        return None
    finally:
        seam.uninstall()


def differs_beyond_start(rec, recC):
    """objective / constraints / bounds / sizes of two hand-off records, away from the starting point.  (A refused
    set_initial / set_value on a concatenation may have applied its legal part before raising: that moves x0 or p and is
    not what C20 is about, so the functions are compared at the probe points only and only under equal p.)"""
    d = S.compare(rec, recC, fields=("size",))
    if d:
        return d
    if not S._close(rec["p"], recC["p"]):
        return None
    r1 = dict(rec, f=rec["f"][1:], g=rec["g"][1:])
    r2 = dict(recC, f=recC["f"][1:], g=recC["g"][1:])
    return S.compare(r1, r2, fields=("f", "g", "bounds"))


def execute_case(steps, probe_seed, compare_after_refusal=True):
    """-> dict(outcome, ...). Raises CaseViolation when the ill-posed specification gets through."""
    seam = S.SolverSeam(probe_seed)
    seam.install()
    act = Actor("A")
    fault_seen = False
    rejected_at = None
    info = {"reached_before_fault": 0}
    try:
        for i, st in enumerate(steps):
            k = st["op"]
            is_fault = bool(st.get("fault"))
            if is_fault and not fault_seen:
                fault_seen = True
                info["reached_before_fault"] = seam.reached
            try:
                with S.Silence():
                    if k == "trigger":
                        run_trigger(act, seam, st)
                    elif k == "omission":  # marks the point from which the specification is ill-posed
                        pass
                    else:
                        act.apply(st)
            except Exception as e:
                import traceback

                tb = traceback.extract_tb(e.__traceback__)
                if not any("/rockit/" in fr.filename or "casadi" in fr.filename for fr in tb):
                    # raised by the harness itself (bad op, unknown name): never to be booked as a rejection by rockit
                    return {"outcome": "generator-error", "detail": "harness: %s at step %d (%s): %s" % (type(e).__name__, i, k, str(e)[:200])}
                if not fault_seen:
                    return {"outcome": "generator-error", "detail": "%s at step %d (%s): %s" % (type(e).__name__, i, k, str(e)[:200])}
                if rejected_at is None:
                    rejected_at = "declaration" if k != "trigger" else "trigger:" + st["what"]
                    info["exception"] = type(e).__name__ + ": " + str(e)[:160]
                    if k != "trigger":
                        # the declaring call refused: the fault never entered the specification.  The user goes on
                        # (the remaining steps still run): whatever reaches the solver from now on must be the
                        # specification without the refused declaration
                        info["refused_step"] = i
                        info["reached_at_refusal"] = seam.reached
        if info.get("refused_step") is not None and seam.reached > info["reached_at_refusal"] and compare_after_refusal:
            rec = seam.records[-1]
            ctrl_steps = [st for j, st in enumerate(steps) if j != info["refused_step"]]
            recC = control_record(ctrl_steps, probe_seed)
            if recC is not None:
                d = differs_beyond_start(rec, recC)
                if d:
                    raise CaseViolation("refused-but-transcribed", "the declaring call raised (%s), yet the NLP handed to the solver afterwards is not the one of the "
                                        "specification without that declaration: %s" % (info.get("exception"), d[1][:200]))
                info["after_refusal"] = "nlp-equals-control"
            else:
                info["after_refusal"] = "control-unavailable"
        handed = seam.reached - info["reached_before_fault"]
        fi = [i for i, st in enumerate(steps) if st.get("fault")]
        if fault_seen and rejected_at is None and not any(st["op"] == "trigger" for st in steps[fi[0]:]):
            return {"outcome": "no-trigger"}  # (a minimisation candidate that lost its trigger) nothing to judge
        if not fault_seen:
            # control run
            return {"outcome": "control-ok" if seam.reached > 0 else "control-no-handoff"}
        if rejected_at is None:
            raise CaseViolation("accepted", "no exception was raised; %d NLP(s) handed to the solver" % handed)
        if rejected_at.startswith("trigger") and handed > 0:
            raise CaseViolation("handed-to-solver", "an exception was raised (%s) but %d NLP(s) still reached the solver" % (info.get("exception"), handed))
        return {"outcome": "rejected", "at": rejected_at, "exception": info.get("exception"), "after_refusal": info.get("after_refusal", "raises" if info.get("refused_step") is not None else None)}
    finally:
        seam.uninstall()


def run_trigger(act, seam, st):
    seam.mode = "stub"
    seam.next_fault = None
    w = st["what"]
    if w == "solve":
        act.ocp.solve()
    elif w == "solve_limited":
        act.ocp.solve_limited()
    elif w == "sample":
        x = st.get("x")
        node = act.node(st.get("stage"))
        node.ocp.sample(node.syms[x] if x else node.ocp.t, grid=st.get("grid", "control"))
    elif w == "der":
        # the public query ocp.der(x): builds the system function on the user's (not yet transcribed) stage
        node = act.node(st.get("stage"))
        node.ocp.der(node.syms[st["x"]])
    elif w == "to_function":
        act.ocp.to_function("f", [], [act.ocp.sample(act.ocp.t, grid="control")[1]])
    else:
        raise ValueError(w)


# ----------------------------------------------------------------------------------------------
# the catalogue
# ----------------------------------------------------------------------------------------------
def with_method(ops, cls, r):
    out = []
    for op in ops:
        if op["op"] == "method":
            m = dict(op["m"])
            m["cls"] = cls
            if cls == "DirectCollocation":
                m.pop("intg", None)
                m.setdefault("degree", 2)
                m.setdefault("scheme", "radau")
            else:
                m.pop("degree", None)
                m.pop("scheme", None)
                m.setdefault("intg", "rk")
            op = dict(op, m=m)
        out.append(op)
    return out


PARENT_SYMS = [{"op": "sym", "name": "vP", "kind": "variable"}, {"op": "sym", "name": "pP", "kind": "parameter"},
               {"op": "set_value", "p": "pP", "v": 1.0}, {"op": "set_initial", "x": "vP", "g": ["num", 0.5]},
               {"op": "add_objective", "expr": ["sq", ["-", ["s", "vP"], ["s", "pP"]]]}]


def as_substage(steps, name="s1", parent_method=False, parent_syms=False):
    """the same OCP declared as the only stage of an otherwise empty parent (which may have declared a method of
    its own: that says nothing about the stage; and may own a variable, a parameter and an objective term)"""
    out = []
    for st in steps:
        st = dict(st)
        k = st["op"]
        if st.get("root"):  # a declaration made on the parent itself
            st.pop("root")
            out.append(st)
            continue
        if k == "new_ocp":
            out.append({"op": "new_ocp"})
            if parent_syms:
                out.extend(jcopy(PARENT_SYMS))
            if parent_method:
                out.append({"op": "method", "m": {"cls": "MultipleShooting", "N": 2, "M": 1, "intg": "rk"}})
            d = {"op": "stage", "name": name}
            for key in ("T", "t0"):
                if key in st:
                    d[key] = st[key]
            out.append(d)
            continue
        if k == "solver" or (k == "trigger" and st["what"] not in ("sample", "der")) or k == "omission":
            out.append(st)
            continue
        st["stage"] = name
        out.append(st)
    return out


def F(op):
    d = dict(op)
    d["fault"] = True
    return d


def catalogue(ops, sp, cls):
    """yield (fault kind, position label, faulty op list builder kind, payload)

    additive faults are returned as ('add', op) -- inserted before the first trigger or after a solve;
    omissions as ('omit', index of the op to drop)."""
    states = sp.names("state")
    params = sp.names("parameter")
    gvars = [v for v in sp.names("variable")]
    out = []
    discrete = bool(sp.nxt)
    for i, x in enumerate(states):
        for j, op in enumerate(ops):
            if op["op"] in ("set_der", "set_next") and op["state"] == x:
                out.append(("missing_der" if not discrete else "missing_next", "state#%d/%d" % (i + 1, len(states)), "omit", j))
    for i, x in enumerate(sp.names("qstate")):
        for j, op in enumerate(ops):
            if op["op"] in ("set_der", "set_next") and op["state"] == x:
                out.append(("missing_der" if not discrete else "missing_next", "quadrature-state#%d" % (i + 1), "omit", j))
    for i, p in enumerate(params):
        s = sp.sym(p)
        kind = "global" if s.get("grid", "") == "" else ("control+" if s.get("include_last") else "control")
        for j, op in enumerate(ops):
            if op["op"] == "set_value" and op["p"] == p:
                out.append(("missing_value", "param#%d:%s%s" % (i + 1, kind, ":horizon" if sp.T == ["par", p] else ""), "omit", j))
    for j, op in enumerate(ops):
        if op["op"] == "method":
            out.append(("no_method", "-", "omit", j))
        if op["op"] == "solver":
            out.append(("no_solver", "-", "omit", j))
    x0 = states[0]
    xl = states[-1]
    for i, x in enumerate(states):
        pos = "state#%d/%d" % (i + 1, len(states))
        out.append(("signal_objective", pos, "add", {"op": "add_objective", "expr": ["sq", ["i", x, 0]]}))
        out.append(("set_value_on_state", pos, "add", {"op": "set_value", "p": x, "v": 1.0}))
        out.append(("signal_grid_point", pos, "add", {"op": "subject_to", "expr": ["<=", ["i", x, 0], ["c", 5.0]], "grid": "point"}))
        out.append(("unknown_grid_subject_to", pos, "add", {"op": "subject_to", "expr": ["<=", ["i", x, 0], ["c", 5.0]], "grid": "nogrid"}))
        if not discrete:
            for sym, nm in ((["T"], "T_in_ode"), (["DT"], "DT_in_ode"), (["DTc"], "DT_control_in_ode")):
                rows = sp.sym(x).get("rows", 1)
                e = ["+", ["i", x, 0], sym]
                out.append((nm, pos, "add", {"op": "set_der", "state": x, "expr": e if rows == 1 else ["vec"] + [e] * rows}))
            rows = sp.sym(x).get("rows", 1)
            e = ["+", ["i", x, 0], ["s", "?f"]]
            out.append(("foreign_in_ode", pos, "add", {"op": "set_der", "state": x, "expr": e if rows == 1 else ["vec"] + [e] * rows}))
    out.append(("nonscalar_objective", "-", "add", {"op": "add_objective", "expr": ["at_tf", ["vec", ["i", x0, 0], ["i", xl, 0]]]}))
    # unknown grid names with expressions that are no signals (boundary value, integral, global variable)
    out.append(("unknown_grid_subject_to", "boundary", "add", {"op": "subject_to", "expr": ["<=", ["at_tf", ["i", xl, 0]], ["c", 50.0]], "grid": "contrl"}))
    out.append(("unknown_grid_subject_to", "integral", "add", {"op": "subject_to", "expr": ["<=", ["int", ["sq", ["i", x0, 0]]], ["c", 500.0]], "grid": "Control"}))
    for i, v in enumerate(gvars):
        if sp.sym(v).get("grid", "") == "":
            out.append(("unknown_grid_subject_to", "var#%d" % (i + 1), "add", {"op": "subject_to", "expr": ["<=", ["s", v], ["c", 50.0]], "grid": "points"}))
    for i, v in enumerate(gvars):
        out.append(("set_value_on_variable", "var#%d" % (i + 1), "add", {"op": "set_value", "p": v, "v": 1.0}))
    out.append(("set_value_unknown", "-", "add", {"op": "set_value", "p": "?q", "v": 1.0}))
    for i, p in enumerate(params):
        out.append(("set_initial_on_parameter", "param#%d" % (i + 1), "add", {"op": "set_initial", "x": p, "g": ["num", 1.0]}))
    out.append(("set_initial_unknown", "-", "add", {"op": "set_initial", "x": "?q", "g": ["num", 1.0]}))
    # the unknown symbol hidden in a concatenation with a known one, either order
    out.append(("set_initial_unknown", "vertcat(known,unknown)", "add", {"op": "set_initial_cat", "xs": [x0, "?q"], "g": ["num", 1.0]}))
    out.append(("set_initial_unknown", "vertcat(unknown,known)", "add", {"op": "set_initial_cat", "xs": ["?q", xl], "g": ["num", 1.0]}))
    for i, p in enumerate(params[:1]):
        out.append(("set_initial_on_parameter", "vertcat(state,param#%d)" % (i + 1), "add", {"op": "set_initial_cat", "xs": [x0, p], "g": ["num", 1.0]}))
    # values for things that are no parameters: horizon symbols and other placeholders
    for nm, e in (("T", ["T"]), ("t0", ["t0"]), ("t", ["t"]), ("at_tf(state)", ["at_tf", ["i", xl, 0]]), ("integral", ["int", ["sq", ["i", x0, 0]]])):
        out.append(("set_value_on_placeholder", nm, "add", {"op": "set_value_expr", "expr": e, "v": 1.0}))
    out.append(("foreign_in_constraint", "path", "add", {"op": "subject_to", "expr": ["<=", ["i", x0, 0], ["s", "?f"]]}))
    out.append(("foreign_in_constraint", "boundary", "add", {"op": "subject_to", "expr": ["<=", ["at_tf", ["i", xl, 0]], ["s", "?f"]]}))
    out.append(("foreign_in_objective", "-", "add", {"op": "add_objective", "expr": ["*", ["s", "?f"], ["at_tf", ["i", x0, 0]]]}))
    out.append(("constant_false_constraint", "literal", "add", {"op": "subject_to", "expr": ["<=", ["mx", 1.0], ["c", 0.0]]}))
    # constant only once the horizon placeholders have been substituted (fixed t0 / T)
    if sp.T[0] == "num":
        out.append(("constant_false_constraint", "T", "add", {"op": "subject_to", "expr": [">=", ["T"], ["c", float(sp.T[1]) + 1.0]]}))
    if sp.t0[0] == "num":
        out.append(("constant_false_constraint", "t0", "add", {"op": "subject_to", "expr": [">=", ["t0"], ["c", float(sp.t0[1]) + 1.0]]}))
    if sp.T[0] == "num" and sp.t0[0] == "num":
        out.append(("constant_false_constraint", "tf", "add", {"op": "subject_to", "expr": ["<=", ["tf"], ["c", float(sp.t0[1]) + float(sp.T[1]) - 0.5]]}))
    intg = [op["m"].get("intg", "rk") for op in ops if op["op"] == "method"][0]
    if cls in ("SingleShooting", "MultipleShooting") and not sp.names("algebraic") and not discrete and intg in ("rk", "expl_euler"):
        out.append(("alg_with_explicit_scheme", "-", "add2", [{"op": "sym", "name": "zF", "kind": "algebraic"},
                                                              {"op": "add_alg", "expr": ["-", ["s", "zF"], ["i", x0, 0]]}]))
    out.append(("late_state_without_der", "-", "add", {"op": "sym", "name": "xF", "kind": "state"}))
    out.append(("late_parameter_without_value", "global", "add2", [{"op": "sym", "name": "pF", "kind": "parameter"},
                                                                   {"op": "subject_to", "expr": ["<=", ["at_tf", ["i", x0, 0]], ["+", ["s", "pF"], ["c", 50.0]]]}]))
    out.append(("late_parameter_without_value", "control", "add2", [{"op": "sym", "name": "pF", "kind": "parameter", "grid": "control"},
                                                                    {"op": "subject_to", "expr": ["<=", ["i", x0, 0], ["+", ["s", "pF"], ["c", 50.0]]]}]))
    return out


TRIGGERS = {
    "solve": [{"op": "trigger", "what": "solve"}, {"op": "trigger", "what": "solve"}],
    "sample-solve": [{"op": "trigger", "what": "sample"}, {"op": "trigger", "what": "solve"}],
    "solve_limited": [{"op": "trigger", "what": "solve_limited"}, {"op": "trigger", "what": "solve"}],
}


def cases_for(ops, sp, cls, r):
    """all cases of one (base, method): list of (key, steps)"""
    cases = []
    cat = catalogue(ops, sp, cls)
    for kind, pos, how, payload in cat:
        for trig_name, trig in sorted(TRIGGERS.items()):
            if how == "omit":
                steps = [op for j, op in enumerate(ops) if j != payload]
                # the specification is ill-posed from the start: the first trigger must raise
                steps = steps[:0] + [{"op": "omission", "fault": True, "fault_kind": kind}] + steps + jcopy(trig)
                cases.append(((kind, pos, cls, "from-start", trig_name), steps))
                continue
            adds = [payload] if how == "add" else payload
            adds = [dict(F(a), fault_kind=kind) for a in adds]
            # timing 1: last declaration before the first transcription
            cases.append(((kind, pos, cls, "before-first-solve", trig_name), ops + adds + jcopy(trig)))
            if all(a["op"] == "set_der" for a in adds):
                # timing 1b: the derivative is declared again after the query ocp.der(x) has made the stage build (and
                # possibly keep) its system function from the well-posed right-hand sides
                cases.append(((kind, pos, cls, "after-der-query", trig_name),
                              ops + [{"op": "trigger", "what": "der", "x": adds[0]["state"]}] + adds + jcopy(trig)))
            # timing 2: after a successful solve
            cases.append(((kind, pos, cls, "after-solve", trig_name), ops + [{"op": "trigger", "what": "solve"}] + adds + jcopy(trig)))
            # timing 3: after a successful solve, followed by a method re-declaration
            mop = [op for op in ops if op["op"] == "method"][0]
            cases.append(((kind, pos, cls, "after-solve+method", trig_name), ops + [{"op": "trigger", "what": "solve"}] + adds + [dict(mop)] + jcopy(trig)))
    # an ill-posed *query*: unknown grid name in sample (the specification itself stays well-posed)
    for timing, pre in (("before-first-solve", []), ("after-solve", [{"op": "trigger", "what": "solve"}])):
        cases.append((("unknown_grid_sample", "-", cls, timing, "sample"),
                      ops + pre + [{"op": "trigger", "what": "sample", "grid": "nogrid", "fault": True, "fault_kind": "unknown_grid_sample"}]))
    return cases


def parent_cases(ops, sp, cls):
    """faults declared on the parent of a multi-stage OCP (its method is the plain DirectMethod): values for the
    parent's own variable, for a symbol of the sub-stage, for an unknown symbol; guesses for the parent's parameter"""
    x0 = sp.names("state")[0]
    rows = sp.sym(x0).get("rows", 1)
    adds = [("set_value_on_variable", "parent-variable", {"op": "set_value", "p": "vP", "v": 1.0}),
            ("set_value_unknown", "parent", {"op": "set_value", "p": "?q", "v": 1.0}),
            ("set_value_on_state", "sub-stage-state-via-parent", {"op": "set_value_expr", "expr": ["in", "s1", ["s", x0]], "v": 1.0 if rows == 1 else {"as": "np", "v": [[1.0]] * rows}}),
            ("set_value_on_variable", "vertcat(parent-param,parent-var)", {"op": "set_value_cat", "ps": ["pP", "vP"], "v": [1.0, 1.0]}),
            ("set_initial_on_parameter", "parent-parameter", {"op": "set_initial", "x": "pP", "g": ["num", 1.0]}),
            ("set_initial_unknown", "parent", {"op": "set_initial", "x": "?q", "g": ["num", 1.0]})]
    cases = []
    for kind, pos, add in adds:
        a = [dict(F(add), fault_kind=kind, root=True)]
        for trig_name, trig in sorted(TRIGGERS.items()):
            cases.append(((kind, pos, cls, "before-first-solve", trig_name), ops + a + jcopy(trig)))
            cases.append(((kind, pos, cls, "after-solve", trig_name), ops + [{"op": "trigger", "what": "solve"}] + a + jcopy(trig)))
    return cases


# ----------------------------------------------------------------------------------------------
# engine interface
# ----------------------------------------------------------------------------------------------
# ----------------------------------------------------------------------------------------------
# SplineMethod: model features it cannot represent (time-varying or nonlinear dynamics)
# ----------------------------------------------------------------------------------------------
def spline_available():
    try:
        import networkx  # noqa: F401  (SplineMethod imports it when it transcribes)
        return True
    except Exception:
        return False


def spline_base(base_seed):
    """a seeded OCP SplineMethod can represent: 1-2 chains of integrators, each driven by its own control.
    Own PRNG stream, so the main matrix of the unit does not depend on whether this section runs."""
    r = random.Random(base_seed * 7919 + 13)
    T = round(r.uniform(0.5, 3.0), 2)
    ops = [{"op": "new_ocp", "T": ["num", T], "t0": ["num", r.choice([0.0, round(r.uniform(-1, 1), 2)])]}]
    chains = []
    for c in range(r.choice([1, 1, 2])):
        L = r.randint(1, 3 if c == 0 else 1)
        xs = ["x%d_%d" % (c + 1, i + 1) for i in range(L)]
        u = "u%d" % (c + 1)
        chains.append((xs, u))
    for xs, u in chains:
        for x in xs:
            ops.append({"op": "sym", "name": x, "kind": "state", "rows": 1, "scale": 1})
    for xs, u in chains:
        ops.append({"op": "sym", "name": u, "kind": "control", "rows": 1, "scale": 1})
    ders = []
    for xs, u in chains:
        for i, x in enumerate(xs):
            rhs = ["s", xs[i + 1]] if i + 1 < len(xs) else ["s", u]
            ders.append(len(ops))
            ops.append({"op": "set_der", "state": x, "expr": rhs, "scale": 1})
    for xs, u in chains:
        ops.append({"op": "subject_to", "expr": ["==", ["at_t0", ["s", xs[0]]], ["c", round(r.uniform(-1, 1), 2)]], "scale": 1})
        ops.append({"op": "subject_to", "expr": ["box", ["c", -round(r.uniform(2, 6), 1)], ["s", u], ["c", round(r.uniform(2, 6), 1)]], "scale": 1})
        ops.append({"op": "add_objective", "expr": ["int", ["sq", ["s", u]]]})
        ops.append({"op": "add_objective", "expr": ["sq", ["-", ["at_tf", ["s", xs[0]]], ["c", round(r.uniform(-1, 1), 2)]]]})
    N = r.randint(2, 4)
    ops.append({"op": "method", "m": {"cls": "SplineMethod", "N": N}})
    ops.append({"op": "solver", "name": "ipopt", "opts": {"ipopt.print_level": 0, "print_time": False}, "reuse": False})
    names = [x for xs, u in chains for x in xs] + [u for xs, u in chains]
    return ops, ders, names, N, r


def spline_cases(base_seed):
    """-> (control steps, [(key, steps)]): every state's derivative is made nonlinear / time-varying in turn;
    timing: declared so from the start under SplineMethod, or solved first with MultipleShooting (for which the model is
    fine) and SplineMethod declared afterwards."""
    ops, ders, names, N, r = spline_base(base_seed)
    cases = []
    other = lambda x: r.choice([n for n in names if n != x] or names)
    for pos, j in enumerate(ders):
        x = ops[j]["state"]
        rhs = ops[j]["expr"]
        c = round(r.uniform(0.2, 1.5), 2)
        forms = [
            ("spline_nonlinear", "square", ["+", rhs, ["*", ["c", c], ["sq", ["s", other(x)]]]]),
            ("spline_nonlinear", "bilinear", ["*", rhs, ["s", other(rhs[1])]]),
            ("spline_nonlinear", "sin", ["sin", rhs]),
            ("spline_time_varying", "plus-t", ["+", rhs, ["*", ["c", c], ["t"]]]),
            ("spline_time_varying", "times-t", ["*", rhs, ["+", ["c", 1.0], ["t"]]]),
            ("spline_time_varying", "sin-t", ["+", rhs, ["sin", ["t"]]]),
        ]
        for kind, form, expr in forms:
            label = "state#%d/%d:%s" % (pos + 1, len(ders), form)
            for trig_name, trig in sorted(TRIGGERS.items()):
                bad = [dict(op) for op in ops]
                bad[j] = dict(F(dict(bad[j], expr=expr)), fault_kind=kind)
                cases.append(((kind, label, "SplineMethod", "from-start", trig_name), bad + jcopy(trig)))
                ms = [dict(op) for op in ops]
                ms[j] = dict(ms[j], expr=expr)
                mi = [i for i, op in enumerate(ms) if op["op"] == "method"][0]
                spl = ms[mi]
                ms[mi] = {"op": "method", "m": {"cls": "MultipleShooting", "N": N, "M": 1, "intg": "rk"}}
                cases.append(((kind, label, "SplineMethod", "after-solve-with-MultipleShooting", trig_name),
                              ms + [{"op": "trigger", "what": "solve"}, dict(F(spl), fault_kind=kind)] + jcopy(trig)))
    return ops + jcopy(TRIGGERS["solve"]), cases


def run_seed(seed):
    """one unit of work = (base OCP seed // 3, method seed % 3); the matrix for it is enumerated completely"""
    base_seed, mi, sub = seed // 6, seed % 3, (seed // 3) % 2 == 1
    parent_method = sub and (seed // 6) % 2 == 1
    r = random.Random(base_seed)
    import os

    probe_seed = r.randrange(1 << 30)
    cfg = dict(CFG)
    if os.environ.get("RSIM_TIER") == "thorough":
        cfg.update({"Nmax": 4, "nx_max": 4, "np_max": 3, "nv_max": 2, "degmax": 3})
    ops, sp = G.gen_base(r, cfg)
    ops = [op for op in ops if op["op"] != "callback"]
    result = {"prop": "C20", "seed": seed, "probe_seed": probe_seed, "verdict": "ok", "steps": [], "nsteps": 0, "config": {"base_ops": len(ops)}}
    counts = {"cases": 0, "rejected_at_declaration": 0, "rejected_at_trigger": 0, "generator_error": 0, "control_failed": 0}
    keys = set()
    by_fault = {}
    log = []
    sample = None
    methods = list(METHODS)
    if sp.names("algebraic"):
        methods = ["DirectCollocation"]
    if sp.nxt:
        methods = [m for m in methods if m != "DirectCollocation"]
    methods = [m for m in methods if m == METHODS[mi]]
    result["config"]["method"] = METHODS[mi]
    result["config"]["base_seed"] = base_seed
    result["config"]["placement"] = "sub-stage" if sub else "top-level"
    parent_syms = sub and base_seed % 3 != 0
    result["config"]["parent_symbols"] = parent_syms
    place = (lambda x: as_substage(x, parent_method=parent_method, parent_syms=parent_syms)) if sub else (lambda x: x)
    for cls in methods:
        mops = with_method(ops, cls, r)
        ctrl = execute_case(place(mops + jcopy(TRIGGERS["solve"])), probe_seed)
        log.append([cls, "control", ctrl["outcome"]])
        if ctrl["outcome"] != "control-ok":
            counts["control_failed"] += 1
            continue
        for key, steps in cases_for(mops, sp, cls, r) + (parent_cases(mops, sp, cls) if parent_syms else []):
            if sub and key[0] == "no_solver":
                pass  # the solver belongs to the parent: same case, still meaningful
            steps = place(steps)
            key = key[:2] + (key[2] + (("/sub-stage+parent-method" if parent_method else "/sub-stage") if sub else ""),) + key[3:]
            counts["cases"] += 1
            try:
                out = execute_case(steps, probe_seed)
            except CaseViolation as v:
                result["verdict"] = "violation"
                result["violation"] = {"class": v.cls + ":" + key[0], "detail": "%s [fault %s at %s, method %s, timing %s, trigger %s]" % ((v.detail,) + key), "step": None}
                result["steps"] = steps
                result["nsteps"] = len(steps)
                log.append([list(key), "VIOLATION"])
                break
            log.append([list(key), out["outcome"], out.get("at")])
            if out["outcome"] == "generator-error":
                counts["generator_error"] += 1
                continue
            keys.add("|".join(key))
            by_fault[key[0]] = by_fault.get(key[0], 0) + 1
            counts["rejected_at_declaration" if out.get("at") == "declaration" else "rejected_at_trigger"] += 1
            if out.get("after_refusal"):
                counts["after_refusal:" + out["after_refusal"]] = counts.get("after_refusal:" + out["after_refusal"], 0) + 1
            if sample is None and key[0] == "missing_der":
                sample = {"key": list(key), "steps": steps, "outcome": out}
        if result["verdict"] != "ok":
            break
    # SplineMethod section (top-level units of the first method, i.e. every sixth unit; needs networkx, which setup.sh
    # installs from the offline wheelhouse).  Not as a sub-stage: on the unchanged tree a stage transcribed by
    # SplineMethod inside a parent fails in the *control* run ('SplineMethod' object has no attribute 'opti').
    if mi == 0 and not sub and result["verdict"] == "ok":
        if not spline_available():
            counts["spline_skipped_networkx_missing"] = 1
        else:
            sctrl, scases = spline_cases(base_seed)
            ctrl = execute_case(place(sctrl), probe_seed)
            log.append(["SplineMethod", "control", ctrl["outcome"]])
            if ctrl["outcome"] != "control-ok":
                counts["spline_control_failed"] = counts.get("spline_control_failed", 0) + 1
                result["config"]["spline_detail"] = str(ctrl.get("detail"))[:200]
            else:
                counts["spline_control_ok"] = 1
                for key, steps in scases:
                    steps = place(steps)
                    key = key[:2] + (key[2] + (("/sub-stage+parent-method" if parent_method else "/sub-stage") if sub else ""),) + key[3:]
                    counts["cases"] += 1
                    try:
                        out = execute_case(steps, probe_seed)
                    except CaseViolation as v:
                        result["verdict"] = "violation"
                        result["violation"] = {"class": v.cls + ":" + key[0], "detail": "%s [fault %s at %s, method %s, timing %s, trigger %s]" % ((v.detail,) + key), "step": None}
                        result["steps"] = steps
                        result["nsteps"] = len(steps)
                        log.append([list(key), "VIOLATION"])
                        break
                    log.append([list(key), out["outcome"], out.get("at")])
                    if out["outcome"] == "generator-error":
                        counts["generator_error"] += 1
                        counts["spline_generator_error"] = counts.get("spline_generator_error", 0) + 1
                        result["config"]["spline_detail"] = str(out.get("detail"))[:200]
                        continue
                    keys.add("|".join(key))
                    by_fault[key[0]] = by_fault.get(key[0], 0) + 1
                    counts["rejected_at_declaration" if out.get("at") == "declaration" else "rejected_at_trigger"] += 1
    result["log_digest"] = hashlib.sha256(json.dumps(log, sort_keys=True).encode()).hexdigest()[:16]
    result["stats"] = {"faults": by_fault, "probes": counts, "ops": {}, "checks": counts["cases"], "checks_equal": counts["cases"], "bit_equal": 0,
                       "rejected_loudly": 0, "transitions": [], "handoffs": 0}
    result["case_keys"] = sorted(keys)
    result["cases"] = counts["cases"]
    result["history_key"] = result["log_digest"]
    result["nontrivial"] = counts["cases"] > 0
    if sample is not None and result["verdict"] == "ok":
        result["steps"] = sample["steps"]
        result["nsteps"] = len(sample["steps"])
        result["sample_case"] = sample["key"]
    return result


def run_steps(steps, probe_seed):
    """replay one case"""
    result = {"prop": "C20", "probe_seed": probe_seed, "verdict": "ok", "steps": steps, "nsteps": len(steps)}
    fault = [s for s in steps if s.get("fault")]
    kind = fault[0].get("fault_kind") if fault and fault[0]["op"] == "omission" else None
    try:
        out = execute_case(steps, probe_seed)
        result["outcome"] = out
    except CaseViolation as v:
        result["verdict"] = "violation"
        result["violation"] = {"class": v.cls + ":" + (kind or classify(steps)), "detail": v.detail, "step": None}
    result["log_digest"] = hashlib.sha256(json.dumps(result.get("outcome", result.get("violation")), sort_keys=True, default=str).encode()).hexdigest()[:16]
    result["stats"] = {}
    return result


def classify(steps):
    """fault kind of an additive case, recomputed from its faulty ops (replay files carry no key)"""
    f = [s for s in steps if s.get("fault")]
    return f[0].get("fault_kind", f[0]["op"]) if f else "?"
