"""C12 -- stages compose without interference and clones equal their template.

Actors of a run: one parent OCP, directly declared stages, free-standing template stages and clones
of templates, each with its own stream of edits.  The scheduler interleaves *edit template*, *clone*,
*edit clone*, *edit sibling*, *parent coupling*, *check*.  Oracles at a check:
  (1) clone equivalence / sibling independence: the NLP handed to the solver equals that of the
      same OCP in which every clone is a directly declared stage with the content the model says it
      must have (template content at cloning time + overrides + its own later edits);
  (2) template unchanged: the template's declared lists do not change by cloning or by edits of
      clones; a clone taken *now* still equals the template's model; template and siblings do not
      start recognising symbols that were declared on another stage only;
  (3) disjoint union: constraint rows and objective of the multi-stage NLP are those of the stages
      transcribed alone plus the parent's own.
"""
import hashlib
import json
import random

import numpy as np

from . import gen as G
from . import seams as S
from .hist import Discard, Violation
from .model import Actor, Spec, build, declared_fingerprint, jcopy, program

CFG = {"Nmax": 3, "Mmax": 2, "degmax": 2, "nx_max": 2, "nu_max": 1, "np_max": 1, "nv_max": 1, "w_parT": 0.0, "w_freeT": 3, "w_freet0": 1.5,
       "p_base_guess": 0.3, "vector_states": False, "discrete": False, "dae": False, "time_in_ode": True,
       "param_kinds": [(3, "g"), (1, "c")]}


def stage_ops(r, cfg, kind, name, time_in=True, shared_method=None):
    """content of one stage / template as ops addressed to it"""
    c = dict(cfg)
    c["time_in_ode"] = time_in
    ops, sp = G.gen_base(r, c)
    if shared_method is not None and not sp.names("algebraic") and not sp.nxt:
        # the user builds one method object and hands the same object to several stages
        for op in ops:
            if op["op"] == "method":
                op["m"] = jcopy(shared_method)
                op["obj"] = "shared"
        fix_N(ops, sp, shared_method["N"], r, c)
    head = ops[0]
    first = {"op": kind, "name": name}
    for k in ("T", "t0"):
        if k in head:
            first[k] = head[k]
    # rockit's defaults (t0=0, T=1) may also be left implicit
    if first.get("t0") == ["num", 0] and r.random() < 0.6:
        first.pop("t0")
    out = [first]
    for op in ops[1:]:
        if op["op"] in ("solver", "callback"):
            continue
        op = dict(op)
        op["stage"] = name
        out.append(op)
    return out, sp


def fix_N(ops, sp, N, r, cfg):
    """array-shaped values / guesses must follow the number of intervals of the shared method"""
    for op in ops:
        if op["op"] == "set_value" and sp.sym(op["p"]).get("grid", ""):
            op["v"] = G.gen_value(r, sp.sym(op["p"]), N)
        if op["op"] == "set_initial" and op["g"][0] == "arr" and op["x"] not in ("T", "t0"):
            op["g"] = ["num", G.rnum(r)]


class World12:
    def __init__(self, probe_seed, pristine=False):
        from .hist import PristineRef

        self.pristine = PristineRef() if pristine else None  # forked before this process touches rockit
        self.probe_seed = probe_seed
        self.seam = S.SolverSeam(probe_seed)
        self.seam.keep_fun = True
        self.seam.install()
        self.fs = S.FakeFS()
        self.fs.install()
        self.act = Actor("A")
        self.log = []
        self.stats = {"faults": {}, "probes": {}, "ops": {}, "checks": 0, "checks_equal": 0, "bit_equal": 0, "rejected_loudly": 0, "transitions": set()}
        self.tpl_fp = {}  # template name -> declared fingerprint when last edited
        self.tainted = False
        self.ever = False

    def probe(self, k, n=1):
        self.stats["probes"][k] = self.stats["probes"].get(k, 0) + n

    def execute(self, i, step):
        k = step["op"]
        try:
            with S.Silence():
                out = self._execute(i, step, k)
        except Violation as v:
            v.step = i
            self.log.append([i, k, "VIOLATION:" + v.cls])
            raise
        self.log.append([i, k, step.get("stage", step.get("name", "")), out])
        self.stats["ops"][k] = self.stats["ops"].get(k, 0) + 1
        return out

    def _execute(self, i, step, k):
        a = self.act
        if k == "new_ocp":
            a.apply(step)
            return "ok"
        if a.ocp is None:
            return "skipped"
        if k == "check":
            self.check()
            return "ok"
        if k == "solve":
            self.seam.mode = "stub"
            self.seam.stub_point = "seeded"
            self.seam.next_fault = step.get("fault")
            try:
                sol = a.ocp.solve()
                out = "ok"
                self.readback(sol)
            except Violation:
                raise
            except (S.SolverFailure, KeyboardInterrupt):
                out = "raised:solver"
                self.stats["faults"]["solver_" + step["fault"]] = self.stats["faults"].get("solver_" + step["fault"], 0) + 1
            except Exception as e:
                out = "raised:" + type(e).__name__
                self.unexpected_raise("solve", e, lambda fresh: self.handoff(fresh))
                self.tainted = True
            self.seam.next_fault = None
            self.ever = True
            return out
        if k == "restart":
            return self.restart(step)
        if k == "query":
            try:
                n = a.node(step.get("stage"))
                x = n.syms.get(step.get("x")) if step.get("x") else None
                fp0 = declared_fingerprint(a.ocp)
                n.ocp.sample(x if x is not None else n.ocp.t, grid="control")
                if declared_fingerprint(a.ocp) != fp0:
                    raise Violation("declared-changed", "sampling on stage %r altered what the user declared (transcribed in place)" % step.get("stage"))
                self.ever = True
                return "ok"
            except Violation:
                raise
            except KeyError:
                return "skipped"
            except Exception as e:
                def redo(fresh, step=step):
                    n2 = fresh.node(step.get("stage"))
                    x2 = n2.syms.get(step.get("x")) if step.get("x") else None
                    n2.ocp.sample(x2 if x2 is not None else n2.ocp.t, grid="control")
                self.unexpected_raise("stage.sample", e, redo)
                self.tainted = True
                return "raised:" + type(e).__name__
        # specification ops
        try:
            if self._missing(step):
                return "skipped"
        except KeyError:
            return "skipped"
        tnames = list(a.templates.keys())
        before = {t: declared_fingerprint(a.templates[t].ocp) for t in tnames}
        try:
            a.apply(step)
        except KeyError:
            return "skipped"
        except Exception as e:
            if k in ("clone",):
                raise Violation("clone-raises", "ocp.stage(template) raised %s: %s" % (type(e).__name__, str(e)[:300]))
            self.tainted = True
            self.probe("edit_raised")
            return "raised:" + type(e).__name__
        if self.ever:
            self.probe("post_transcription_edit")
        # (2a) template unchanged by anything that is not an edit of that template
        for t in tnames:
            if step.get("stage") == t:
                continue
            if declared_fingerprint(a.templates[t].ocp) != before[t]:
                raise Violation("template-modified", "step %s changed the declared content of template %s" % (json.dumps(step)[:200], t))
        if k == "clone":
            self.probe("clone")
        if step.get("stage") in a.templates and any(True for n in a.sub.values()):
            self.probe("template_edit_after_clone")
        return "ok"

    def restart(self, step):
        """C18 for multi-stage OCPs: save, drop every object, load, continue on the loaded OCP with symbols
        fetched through the public accessors (stages through iter_stages, in creation order)"""
        import gc

        from rockit import Ocp

        from .hist import fetch_symbols

        a = self.act
        if self.tainted:
            return "skipped"
        fs = self.fs
        try:
            a.ocp.save(step.get("path", "ms.rockit"))
        except Exception as e:
            raise Violation("save-raises", "ocp.save raised %s: %s" % (type(e).__name__, str(e)[:200]))
        try:
            loaded = Ocp.load(step.get("path", "ms.rockit"))
        except Exception as e:
            raise Violation("load-raises", "Ocp.load of an intact file raised %s: %s" % (type(e).__name__, str(e)[:200]))
        new = Actor("A")
        new.ocp = loaded
        new.spec = a.spec
        new.templates = a.templates  # templates are free-standing objects of the session, not part of the file
        try:
            new.syms = fetch_symbols(loaded, a.spec)
            kids = list(loaded.iter_stages())
            if len(kids) != len(a.spec.stages):
                raise Exception("%d stages declared, iter_stages() yields %d" % (len(a.spec.stages), len(kids)))
            for (name, ch), obj in zip(a.spec.stages, kids):
                n = Actor(name, parent=new)
                n.ocp = obj
                n.spec = ch
                n.syms = fetch_symbols(obj, ch)
                new.sub[name] = n
        except Exception as e:
            raise Violation("load-accessors", "symbols / stages of the loaded OCP not reachable through the accessors: %s" % str(e)[:200])
        self.act = new
        del a
        gc.collect()
        self.ever = False
        self.probe("restart")
        return "ok"

    def _missing(self, step):
        from . import expr as E

        a = self.act
        k = step["op"]
        if k in ("stage", "template"):
            return step["name"] in a.sub or step["name"] in a.templates
        if k == "clone":
            return (step["template"] not in a.templates and step["template"] not in a.sub) or step["name"] in a.sub
        node = a.node(step.get("stage"))  # KeyError -> skipped
        names = set()
        if "expr" in step:
            E.symbols_of(step["expr"], names)
        if k in ("set_der", "set_next"):
            names.add(step["state"])
        if k == "set_value":
            names.add(step["p"])
        if k == "set_initial":
            if step["x"] not in ("T", "t0"):
                names.add(step["x"])
            if step["g"][0] == "expr":
                E.symbols_of(step["g"][1], names)
        if k == "set_T" and step["T"][0] == "par":
            names.add(step["T"][1])
        if k == "sym":
            return step["name"] in node.syms
        for n in names:
            if n.startswith("@"):
                if n[1:] and n[1:] not in a.sub:
                    return True
            elif n not in node.syms:
                return True
        if "expr" in step and self._in_missing(step["expr"]):
            return True
        return False

    def _in_missing(self, ast):
        from . import expr as E

        if not isinstance(ast, list) or not ast:
            return False
        if ast[0] == "in":
            try:
                node = self.act.node(ast[1])
            except KeyError:
                return True
            if node.name in self.act.templates:
                return True
            return any(n not in node.syms for n in E.symbols_of(ast[2]) if not n.startswith("@"))
        return any(self._in_missing(x) for x in ast[1:])

    def readback(self, sol):
        """sol(stage).sample refers to that stage only: compare with the stage's own symbolic sample evaluated on
        the same solution, for every stage, in both reading orders (clones share their symbols)"""
        a = self.act
        names = [n for n, _ in a.spec.stages if a.sub[n].spec.names("state") and a.sub[n].spec.method]
        if len(names) < 1 or self.tainted:
            return
        for order in (names, list(reversed(names))):
            for nm in order:
                n = a.sub[nm]
                x = n.syms[n.spec.names("state")[0]]
                try:
                    tt, got = sol(n.ocp).sample(x, grid="control")
                    e_t, e_x = n.ocp.sample(x, grid="control")
                    exp = np.array(sol.sol.value(e_x), dtype=float)
                    exp_t = np.array(sol.sol.value(e_t), dtype=float)
                except Exception:
                    self.probe("readback_unavailable")
                    return
                got = np.array(got, dtype=float)
                if got.size != exp.size or not np.allclose(got.flatten(), exp.T.flatten() if exp.ndim > 1 else exp.flatten(), rtol=1e-9, atol=1e-12, equal_nan=True) \
                        or not np.allclose(np.array(tt, dtype=float).flatten(), exp_t.flatten(), rtol=1e-9, atol=1e-12, equal_nan=True):
                    raise Violation("readback-differs", "sol(stage %s).sample returns %s at times %s, the stage's own sample evaluates to %s at %s" % (
                        nm, np.round(got.flatten(), 6).tolist()[:8], np.round(np.array(tt).flatten(), 6).tolist()[:8],
                        np.round(exp.flatten(), 6).tolist()[:8], np.round(exp_t.flatten(), 6).tolist()[:8]))
        self.probe("readback_checked")

    def unexpected_raise(self, what, e, redo):
        """is the specification itself ill-posed (then the direct rewrite raises too) or did templates / clones /
        the history break the object?"""
        if self.tainted:
            return
        try:
            fresh = build(program(self.act.spec), "fresh")
            redo(fresh)
        except Exception:
            self.probe("raise_shared_by_fresh_specification")
            return
        raise Violation("evolved-raises", "%s raises %s (%s) but works on the same content declared directly" % (what, type(e).__name__, str(e)[:200]))

    # -- oracle
    def handoff(self, act):
        self.seam.mode = "stub"
        self.seam.next_fault = None
        n0 = len(self.seam.records)
        act.ocp.solve()
        if len(self.seam.records) != n0 + 1:
            raise Violation("no-handoff", "solve returned without handing an NLP to the solver")
        return self.seam.records[-1]

    def check(self):
        a = self.act
        if self.tainted:
            self.probe("check_skipped_tainted")
            return
        self.stats["checks"] += 1
        fp0 = declared_fingerprint(a.ocp)
        err = None
        try:
            rec = self.handoff(a)
        except Violation:
            raise
        except Exception as e:
            err = e
        try:
            fresh = build(program(a.spec), "fresh")
            recF = self.handoff(fresh)
        except Exception as e:
            if err is None and a.sub and any(True for n in a.sub.values()):
                # the evolved OCP (with clones) transcribes, its rewrite with direct stages does not
                raise Discard("fresh write fails: %s %s" % (type(e).__name__, str(e)[:200]))
            raise Discard("fresh write fails: %s %s" % (type(e).__name__, str(e)[:200]))
        if err is not None:
            raise Violation("evolved-raises", "solve raises %s on the OCP built with templates/clones but the same content declared directly transcribes: %s"
                            % (type(err).__name__, str(err)[:300]))
        self.ever = True
        d = S.compare(rec, recF)
        if d:
            raise Violation("clone-vs-direct:" + d[0], "OCP with clones vs the same content declared directly: " + d[1])
        if declared_fingerprint(a.ocp) != fp0:
            raise Violation("declared-changed", "transcribing altered the declared specification")
        self.stats["checks_equal"] += 1
        if S.digest(rec) == S.digest(recF):
            self.stats["bit_equal"] += 1
        if self.pristine is not None:
            recP, perr = self.pristine.record(program(a.spec), self.probe_seed)
            if recP is None:
                self.probe("pristine_reference_failed")
            else:
                d = S.compare(rec, recP, fields=("size", "f", "g", "bounds", "x0", "p"))
                if d:
                    raise Violation("differs-from-pristine-process:" + d[0], "the multi-stage NLP differs from the same content declared directly in a "
                                    "process that never ran rockit before: " + d[1])
                self.probe("pristine_reference_equal")
        self.log.append(["check", S.digest(rec)])
        self.check_templates()
        self.check_catalog()
        self.check_union(rec)

    def check_templates(self):
        """(2b) a clone taken now equals the template's model"""
        a = self.act
        for tname in sorted(a.templates):
            t = a.templates[tname]
            if t.spec.method is None:
                continue
            probe = Actor("P")
            probe.apply({"op": "new_ocp"})
            probe.templates[tname] = t
            try:
                probe.apply({"op": "clone", "name": "c", "template": tname})
                probe.apply({"op": "solver", "name": "ipopt", "opts": {}})
                rec = self.handoff(probe)
            except Violation:
                raise
            except Exception as e:
                err = e
                rec = None
            ref = Spec()
            ref.stages.append(["c", t.spec.clone()])
            ref.solver = ["ipopt", {}]
            try:
                recF = self.handoff(build(program(ref), "tfresh"))
            except Exception as e:
                self.probe("template_model_ill_posed")
                continue
            if rec is None:
                raise Violation("clone-raises", "a clone of template %s does not transcribe (%s: %s) although the same content declared directly does"
                                % (tname, type(err).__name__, str(err)[:300]))
            d = S.compare(rec, recF)
            if d:
                raise Violation("template-drift:" + d[0], "a clone taken now from template %s differs from the template's content: %s" % (tname, d[1]))
            self.probe("template_clone_equal")

    def check_catalog(self):
        """(2c) no stage recognises a symbol that was declared on another stage only"""
        a = self.act
        nodes = dict(a.sub)
        nodes.update(a.templates)
        nodes[""] = a
        allsyms = []
        for nn, n in nodes.items():
            for sname, sym in n.syms.items():
                allsyms.append((nn, sname, sym))
        for nn, n in nodes.items():
            own = set(v.__hash__() for v in n.syms.values())  # CasADi node identity (survives save / load)
            for (on, sname, sym) in allsyms:
                belongs = sym.__hash__() in own
                try:
                    n.ocp.signal_shape(sym)
                    known = True
                except Exception:
                    known = False
                if known and not belongs:
                    raise Violation("symbol-leak", "stage %r recognises symbol %s that was declared on %r only" % (nn, sname, on))
                if belongs and not known:
                    raise Violation("symbol-lost", "stage %r no longer recognises its own symbol %s" % (nn, sname))
        self.probe("catalog_checked")

    def check_union(self, rec):
        """(3) rows / objective of the whole = stages alone + parent's own"""
        a = self.act
        if not a.spec.stages:
            return
        # stage blocks transcribed alone (as single-stage OCPs with the same content)
        alone = []
        for name, ch in a.spec.stages:
            sp = ch.clone()
            if _mentions_in(sp):
                self.probe("union_skipped_stage_refers_to_parent")
                return
            sp.solver = ["ipopt", {}]
            try:
                alone.append(self.handoff(build(program(sp), "alone")))
            except Exception as e:
                self.probe("union_skipped_alone_fails")
                self.log.append(["union_alone_fails", type(e).__name__ + str(e)[:200]])
                return
        # the parent's own part: same OCP with every stage stripped of objective (rows stay)
        nx_sum = sum(r["nx"] for r in alone)
        ng_sum = sum(r["ng"] for r in alone)
        n_root_x = rec["nx"] - nx_sum
        n_root_g = rec["ng"] - ng_sum
        if n_root_x < 0 or n_root_g < 0:
            raise Violation("union:size", "whole NLP has nx=%d ng=%d, the stages alone already sum to nx=%d ng=%d" % (rec["nx"], rec["ng"], nx_sum, ng_sum))
        root_vars = sum(s.get("rows", 1) * s.get("cols", 1) for s in a.spec.syms if s["kind"] == "variable")
        # the block layout [parent, stage 1, stage 2, ...] can only be relied on when Opti dropped no variable
        if any(r.get("nx_created") != r["nx"] for r in alone + [rec]):
            self.probe("union_incomparable_active_sets")
            return
        if n_root_x != root_vars:
            # no variable was dropped anywhere (checked above), so the parent contributes exactly its own variables
            raise Violation("union:size", "the parent contributes %d decision variables to the multi-stage NLP but declares %d" % (n_root_x, root_vars))
        # bounds of stage rows: the parent's rows come first
        lb = np.concatenate([r["lbg"] for r in alone]) if alone else np.zeros(0)
        ub = np.concatenate([r["ubg"] for r in alone]) if alone else np.zeros(0)
        if not (S._close(rec["lbg"][n_root_g:], lb) and S._close(rec["ubg"][n_root_g:], ub)):
            raise Violation("union:bounds", "bounds of the stage rows in the multi-stage NLP differ from those of the stages transcribed alone")
        self.probe("union_bounds_equal")
        # values: the whole decision vector is [parent's variables, stage 1 block, stage 2 block, ...]
        pts = [rec["x0"]] + S.probe_points(rec["nx"], self.probe_seed)
        for i, xi in enumerate(pts):
            gi = np.abs(np.asarray(rec["g"][i], dtype=float))
            if not np.isfinite(rec["f"][i]) or abs(rec["f"][i]) > S.COND_LIMIT or (gi.size and not (np.nanmax(gi) <= S.COND_LIMIT)):
                self.probe("union_ill_conditioned_probe_skipped")
                continue
            off, goff, fsum = n_root_x, n_root_g, 0.0
            failed = False
            for r_s in alone:
                xs = np.asarray(xi[off:off + r_s["nx"]], dtype=float)
                try:
                    f, g, _, _ = r_s["_F"](xs, r_s["p"])
                    failed = failed or not np.isfinite(float(f))
                except RuntimeError:
                    failed = True
                if failed:
                    break  # a built-in integrator gave up at this point (it keeps memory between calls): not judged
                if not S._close(np.array(g).flatten(), rec["g"][i][goff:goff + r_s["ng"]], rtol=1e-8, atol=1e-10):
                    raise Violation("union:g", "constraint rows of a stage inside the multi-stage NLP differ from the same stage transcribed alone (probe %d)" % i)
                fsum += float(f)
                off += r_s["nx"]
                goff += r_s["ng"]
            if failed:
                self.probe("union_probe_skipped_stage_alone_not_evaluable")
                continue
            if not a.spec.obj and not S._close([rec["f"][i]], [fsum], rtol=1e-8, atol=1e-10):
                raise Violation("union:f", "total objective %r is not the sum of the stage objectives %r (probe %d)" % (rec["f"][i], fsum, i))
        off = n_root_x
        for r_s in alone:
            if not S._close(rec["x0"][off:off + r_s["nx"]], r_s["x0"]):
                raise Violation("union:x0", "starting point of a stage inside the multi-stage NLP differs from the same stage alone")
            off += r_s["nx"]
        self.probe("union_values_equal")
        if not a.spec.obj:
            self.probe("union_objective_is_sum")


def _mentions_in(sp):
    from . import expr as E

    for c in sp.cons:
        if E.mentions(c["expr"], ("in",)):
            return True
    for o in sp.obj:
        if E.mentions(o, ("in",)):
            return True
    for st, (ast, sc) in sp.der.items():
        if E.mentions(ast, ("in",)):
            return True
    return False


# ----------------------------------------------------------------------------------------------
# scheduler
# ----------------------------------------------------------------------------------------------
def gen_run(r, w, steps, emit, restarts=False):
    import os

    cfg = dict(CFG)
    deep = os.environ.get("RSIM_TIER") == "thorough"
    if deep:
        cfg.update({"Nmax": 5, "Mmax": 3, "degmax": 3, "nx_max": 3, "nu_max": 2, "np_max": 2, "nv_max": 2, "vector_states": True})
    swarm = {"time_in_template": r.random() < 0.5, "n_templates": r.choice([0, 1, 1, 2]), "n_direct": r.choice([0, 1, 1, 2]),
             "n_clones": r.choice([1, 1, 2, 3]), "nsteps": r.randint(2, 24 if deep else 10), "p_fault": r.choice([0, 0.2]),
             "parent_var": r.random() < 0.5}
    root = {"op": "new_ocp"}
    if r.random() < 0.25:
        # a parent without dynamics may carry a horizon of its own; it means nothing for the NLP
        root["T"] = G.pick(r, [["num", G.positive_value(r)], ["free", G.positive_value(r)]])
    if r.random() < 0.15:
        root["t0"] = G.pick(r, [["num", G.rnum(r, -1, 1)], ["free", G.rnum(r, -1, 1)]])
    emit(root)
    if swarm["parent_var"]:
        emit({"op": "sym", "name": "vP", "kind": "variable"})
    swarm["parent_par"] = r.random() < 0.4
    if swarm["parent_par"]:
        emit({"op": "sym", "name": "pP", "kind": "parameter"})
        emit({"op": "set_value", "p": "pP", "v": G.rnum(r)})
    names = {"tpl": [], "stage": []}
    shared = G.gen_method(r, cfg) if r.random() < 0.3 else None
    swarm["shared_method_object"] = bool(shared)
    for i in range(swarm["n_templates"]):
        nm = "tp%d" % (i + 1)
        ops, _ = stage_ops(r, cfg, "template", nm, time_in=swarm["time_in_template"], shared_method=shared)
        for op in ops:
            emit(op)
        names["tpl"].append(nm)
    for i in range(swarm["n_direct"]):
        nm = "s%d" % (i + 1)
        ops, _ = stage_ops(r, cfg, "stage", nm, shared_method=shared)
        for op in ops:
            emit(op)
        names["stage"].append(nm)
    ncl = 0
    if names["tpl"]:
        for i in range(swarm["n_clones"]):
            ncl += 1
            emit(clone_op(r, names, ncl, w.act))
    if not names["stage"]:
        nm = "s1"
        for op in stage_ops(r, cfg, "stage", nm)[0]:
            emit(op)
        names["stage"].append(nm)
    emit({"op": "solver", "name": "ipopt", "opts": {}})
    for i in range(swarm["nsteps"]):
        kinds = [(2, "edit_stage"), (2, "check"), (1.5, "couple"), (1.5, "solve"), (0.7, "query"), (0.6, "root_method")]
        if restarts:
            kinds.append((2.5, "restart"))
        if names["tpl"]:
            kinds += [(2, "edit_template"), (2, "clone")]
        if swarm["parent_var"]:
            kinds += [(1, "parent_obj"), (1, "parent_guess")]
        if swarm["parent_par"]:
            kinds += [(1.5, "parent_value"), (1, "parent_par_couple")]
        k = G.wpick(r, kinds)
        a = w.act
        if k == "check":
            emit({"op": "check"})
        elif k == "restart":
            emit({"op": "restart", "path": "ms.rockit"})
        elif k == "root_method":
            emit({"op": "method", "m": {"cls": "DirectMethod"}})  # the parent's own (trivial) method, declared again
        elif k == "solve":
            d = {"op": "solve"}
            if r.random() < swarm["p_fault"]:
                d["fault"] = G.pick(r, ["fail_before", "fail_after", "interrupt"])
            emit(d)
        elif k == "query":
            emit({"op": "query", "stage": G.pick(r, names["stage"])})
        elif k == "clone":
            ncl += 1
            emit(clone_op(r, names, ncl, w.act))
        elif k in ("edit_stage", "edit_template"):
            nm = G.pick(r, names["stage"] if k == "edit_stage" else names["tpl"])
            try:
                sp = a.node(nm).spec
            except KeyError:
                continue
            for op in edit_ops(r, cfg, sp, nm):
                emit(op)
        elif k == "couple":
            if len(names["stage"]) >= 2:
                s1, s2 = r.sample(names["stage"], 2)
                x1 = a.sub[s1].spec.names("state") if s1 in a.sub else []
                x2 = a.sub[s2].spec.names("state") if s2 in a.sub else []
                if x1 and x2:
                    emit({"op": "subject_to", "expr": ["==", ["in", s1, ["at_tf", ["i", G.pick(r, x1), 0]]], ["in", s2, ["at_t0", ["i", G.pick(r, x2), 0]]]]})
                    if s2 in a.sub and a.sub[s2].spec.t0[0] == "free":
                        emit({"op": "subject_to", "expr": ["==", ["in", s1, ["tf"]], ["in", s2, ["t0"]]]})
            elif swarm["parent_var"]:
                s1 = names["stage"][0]
                x1 = a.sub[s1].spec.names("state") if s1 in a.sub else []
                if x1:
                    emit({"op": "subject_to", "expr": ["<=", ["in", s1, ["at_tf", ["i", G.pick(r, x1), 0]]], ["s", "vP"]]})
        elif k == "parent_obj":
            emit({"op": "add_objective", "expr": ["sq", ["-", ["s", "vP"], ["c", G.rnum(r)]]]})
        elif k == "parent_guess":   # guess for the parent's own variable (also after a transcription)
            emit({"op": "set_initial", "x": "vP", "g": ["num", G.rnum(r)]})
        elif k == "parent_value":   # new value for the parent's own parameter (also after a transcription)
            emit({"op": "set_value", "p": "pP", "v": G.rnum(r)})
        elif k == "parent_par_couple":
            s1 = G.pick(r, names["stage"])
            x1 = a.sub[s1].spec.names("state") if s1 in a.sub else []
            if x1:
                emit({"op": "subject_to", "expr": ["<=", ["in", s1, ["at_tf", ["i", G.pick(r, x1), 0]]], ["+", ["s", "pP"], ["c", 5.0]]]})
    emit({"op": "check"})

    # nested helper state
    return swarm


def clone_op(r, names, n, act=None):
    d = {"op": "clone", "name": "c%d" % n, "template": G.pick(r, names["tpl"])}
    if names["stage"] and r.random() < 0.15:
        d["template"] = G.pick(r, names["stage"])  # a copy of a stage that already belongs to the OCP (possibly itself a clone)
    guessed = set()
    if act is not None:
        try:
            src = act.templates[d["template"]] if d["template"] in act.templates else act.sub[d["template"]]
            guessed = set(x for x, g in src.spec.initial)
        except KeyError:
            pass
    if r.random() < 0.5:
        # a fixed horizon together with an inherited guess for it would be ill-posed
        # (0 is a legal override and differs from "not given")
        d["t0"] = ["num", G.pick(r, [0, 0.0, G.rnum(r, -1, 1)])] if (r.random() < 0.6 and "t0" not in guessed) else ["free", G.pick(r, [0, G.rnum(r, -1, 1)])]
    if r.random() < 0.5:
        d["T"] = ["num", G.positive_value(r)] if (r.random() < 0.5 and "T" not in guessed) else ["free", G.positive_value(r)]
    names["stage"].append(d["name"])
    return d


def edit_ops(r, cfg, sp, nm):
    k = G.wpick(r, [(2, "con"), (1.5, "obj"), (1, "guess"), (1, "value"), (0.8, "sym"), (0.6, "method"), (0.4, "T"), (0.7, "chain")])
    out = []
    N = (sp.method or {}).get("N", 2)
    if not sp.names("state"):
        return out
    if k == "con":
        out = G.gen_constraints(r, sp, cfg, 1)
    elif k == "obj":
        out = G.gen_objectives(r, sp, cfg, 1)
    elif k == "guess":
        tg = G.guess_targets(sp)
        if tg:
            t, s = G.pick(r, tg)
            out = [{"op": "set_initial", "x": t, "g": G.gen_guess(r, t, s, N, cfg)}]
    elif k == "value":
        ps = sp.names("parameter")
        if ps:
            p = G.pick(r, ps)
            out = [{"op": "set_value", "p": p, "v": G.gen_value(r, sp.sym(p), N)}]
    elif k == "sym":
        n = len(sp.names("variable")) + 1
        while sp.sym("w%d" % n):
            n += 1
        out = [{"op": "sym", "name": "w%d" % n, "kind": "variable"},
               {"op": "subject_to", "expr": [">=", ["s", "w%d" % n], ["c", G.rnum(r, -2, 0)]]},
               {"op": "add_objective", "expr": ["sq", ["-", ["s", "w%d" % n], ["c", G.rnum(r)]]]}]
    elif k == "chain":
        # guesses that build on each other (rockit evaluates a guess expression at the current starting point):
        # signal <- b * f(t), b <- 3 a + c, a <- number -- given dependents first.  rockit keeps its guess table newest
        # first and applies it twice per transcription, so only this order is resolved the same way whatever the
        # history (given a, b, signal before the first transcription the signal starts from the half-resolved b; given
        # after it, from the resolved one: seen in a soak, and no statement covers such chains).  The two links are
        # variables of their own, never guessed again; the signal may get another guess later.
        tg = [t for t, s_ in G.guess_targets(sp) if s_ is not None and s_["kind"] in ("state", "control") and s_.get("rows", 1) * s_.get("cols", 1) == 1]
        n = 1
        while sp.sym("k%da" % n):
            n += 1
        if tg and n <= 2:
            a_, b_ = "k%da" % n, "k%db" % n
            out = [{"op": "sym", "name": a_, "kind": "variable", "chain": True}, {"op": "sym", "name": b_, "kind": "variable", "chain": True},
                   {"op": "add_objective", "expr": ["+", ["sq", ["-", ["s", a_], ["c", G.rnum(r)]]], ["sq", ["-", ["s", b_], ["c", G.rnum(r)]]]]},
                   {"op": "set_initial", "x": G.pick(r, tg), "g": ["expr", ["*", ["s", b_], ["+", ["c", 1.0], G.gen_time_expr(r)]]]},
                   {"op": "set_initial", "x": b_, "g": ["expr", ["+", ["*", ["c", 3.0], ["s", a_]], ["c", G.rnum(r)]]]},
                   {"op": "set_initial", "x": a_, "g": ["num", G.rnum(r)]}]
    elif k == "method" and sp.method:
        out = [{"op": "method", "m": G.gen_method(r, cfg, sp, N=N)}]
    elif k == "T" and sp.T[0] in ("num", "free"):
        out = [{"op": "set_T", "T": [sp.T[0], G.positive_value(r)]}]
    for op in out:
        op["stage"] = nm
    return out


# ----------------------------------------------------------------------------------------------
# engine interface
# ----------------------------------------------------------------------------------------------
def _finish(w, steps, result):
    if w.pristine is not None:
        w.pristine.close()
    result["log_digest"] = hashlib.sha256(json.dumps(w.log, sort_keys=True, default=str).encode()).hexdigest()[:16]
    result["steps"] = steps
    result["nsteps"] = len(steps)
    result["outcomes"] = [l[-1] for l in w.log if isinstance(l[0], int)]
    st = w.stats
    result["stats"] = {"faults": st["faults"], "probes": st["probes"], "ops": st["ops"], "checks": st["checks"], "checks_equal": st["checks_equal"],
                       "bit_equal": st["bit_equal"], "rejected_loudly": 0, "transitions": [], "handoffs": w.seam.reached}
    kinds = [s["op"] + ":" + ("T" if s.get("stage", "").startswith("tp") else "C" if s.get("stage", "").startswith("c") else "S" if s.get("stage") else "P") for s in steps]
    result["history_key"] = hashlib.sha256(json.dumps(kinds).encode()).hexdigest()[:16]
    result["nontrivial"] = bool((st["probes"].get("clone", 0) or st["probes"].get("restart", 0)) and st["checks_equal"])
    return result


def run_seed(seed, restarts=False):
    r = random.Random(seed)
    probe_seed = r.randrange(1 << 30)
    w = World12(probe_seed, pristine=random.Random(seed ^ 0x5EED).random() < 0.3)
    steps = []
    result = {"prop": "C18" if restarts else "C12", "seed": seed, "probe_seed": probe_seed, "verdict": "ok"}

    def emit(op):
        steps.append(op)
        w.execute(len(steps) - 1, op)

    try:
        result["config"] = gen_run(r, w, steps, emit, restarts=restarts)
    except Violation as v:
        result["verdict"] = "violation"
        result["violation"] = {"class": v.cls, "detail": v.detail, "step": v.step}
    except Discard as d:
        result["verdict"] = "discard"
        result["detail"] = str(d)
    return _finish(w, steps, result)


def run_steps(steps, probe_seed):
    w = World12(probe_seed, pristine=True)
    result = {"prop": "C12", "probe_seed": probe_seed, "verdict": "ok"}
    try:
        for i, s in enumerate(steps):
            w.execute(i, s)
    except Violation as v:
        result["verdict"] = "violation"
        result["violation"] = {"class": v.cls, "detail": v.detail, "step": v.step}
    except Discard as d:
        result["verdict"] = "discard"
        result["detail"] = str(d)
    return _finish(w, steps, result)
