import sys, os, json
import os; sys.path.insert(0, os.environ.get('RSIM_REPO','/repo')); sys.path.insert(0, '/verif')
import casadi, rockit
from rsim import hist, props, seams, model
doc = json.load(open(sys.argv[1]))
prop = doc['property']
w = hist.make_world(prop, doc['probe_seed'], props.BASE.get(prop, {}))
try:
    for i, s in enumerate(doc['steps']):
        out = w.execute(i, s)
        print(i, s['op'], out)
except hist.Violation as v:
    print("VIOLATION", v.cls, v.detail)
    a = w.actors[s.get('a','A')]
    print("program of spec:")
    for op in model.program(a.spec): print("   ", json.dumps(op)[:200])
    recs = w.seam.records
    for r in recs[-3:]:
        print("x0", r['x0'], "p", r['p'], "f", r['f'], 'nx',r['nx'])
