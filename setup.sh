#!/bin/sh
# Offline setup: nothing to build (pure Python on /venv, which already has casadi, numpy, rockit-from-/repo).
set -e
cd "$(dirname "$0")"
mkdir -p evidence replays
PYTHONPATH=/repo /venv/bin/python -c "import casadi, numpy, rockit; print('rockit from', rockit.__file__)"
