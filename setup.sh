#!/bin/sh
# Offline setup: pure Python on /venv (casadi, numpy, rockit-from-/repo are there already).
# networkx (needed by rockit's SplineMethod when it transcribes; C20 enumerates its model restrictions) comes from the
# offline wheelhouse into /verif/.deps, which ./check appends to PYTHONPATH; /venv itself is left untouched.
set -e
cd "$(dirname "$0")"
mkdir -p evidence replays
if ! PYTHONPATH="$PWD/.deps" /venv/bin/python -c "import networkx" 2>/dev/null; then
  PIP_NO_INDEX=1 /venv/bin/pip install -q --no-index --find-links /opt/veriftools/wheels --target "$PWD/.deps" networkx
fi
PYTHONPATH="/repo:$PWD/.deps" /venv/bin/python -c "import casadi, numpy, rockit, networkx; print('rockit from', rockit.__file__, '| networkx', networkx.__version__)"
